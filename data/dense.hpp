// Feature-dense C++ header for the configuration sweep.
namespace outer { namespace inner { struct deep { int d; }; enum class scoped : unsigned char { A, B }; } inline namespace v1 { struct versioned { int v; }; } int ns_fn(inner::deep*); }
namespace { struct in_anon_ns { int a; }; }
enum class Scoped { One, Two = 10 };
enum Plain : short { P0, P1 };
struct Base { virtual ~Base(); virtual void vfn(int); virtual int pure() = 0; int base_field; };
struct Derived : public Base { void vfn(int) override; int pure() override; Scoped s; double d; };
struct Multi : public Derived, public outer::inner::deep { int m; };
struct VirtualBase : virtual public outer::inner::deep { char c; };
class WithAccess { public: int pub_; WithAccess(); WithAccess(int); WithAccess(const WithAccess&) = delete; ~WithAccess(); static int s_count; static int sfn(); int method() const; protected: int prot_; private: int priv_; void hidden(); };
struct WithAnon { enum { IN_A, IN_B = 3 } tag; union { int i; float f; }; struct { int x, y; } pos; struct Named { int n; } named; };
template <typename T> struct Box { T value; Box* next; T arr[4]; };
template <typename T, typename U> struct Pair { T first; U* second; };
template <typename T> struct Unused { int x; };
template <typename T, int N> struct FixedArr { T data[N]; };
template <typename T> using BoxAlias = Box<T>;
template <typename T> struct Crtp { T* self(); };
struct UsesCrtp : Crtp<UsesCrtp> { int z; };
struct Instances { Box<int> bi; Box<Box<float>> bbf; Pair<char, Derived> pcd; Unused<double> ud; FixedArr<int, 3> fa; BoxAlias<short> bs; };
template <> struct Box<bool> { unsigned bits : 8; };
struct Refs { int& r; const Base& b; int&& rr; int* p; int Refs::* pm; void (Base::* pmf)(int); };
struct OpaqueCandidate { Box<Instances> deep; long double ld; };
struct Bitfields { bool b : 1; unsigned u : 7; Plain e : 4; };
struct Ops { Ops& operator+=(int); bool operator==(const Ops&) const; operator bool() const; int v; };
template <typename T> struct Dependent { typename T::value_type first; int second; typename T::other third; char c; };
template <typename T> struct DependentTail { int head; typename T::value_type last; };
struct Empty {};
struct HasEmpty { Empty e; int after; };
struct DerivedFromEmpty : Empty { char c; };
typedef Box<Empty> BoxOfEmpty;
extern "C" { int c_linkage(int); struct CStruct { int c; }; }
int overloaded(int); int overloaded(double); int overloaded(const Box<int>&);
inline int inline_cpp(int x) { return x * 2; }
constexpr int kConst = 5; const double kDouble = 2.5; static const char kChar = 'x';
struct Nested { struct Level1 { struct Level2 { int deep; enum { L2_A } e; }; Level2 l2; }; Level1 l1; typedef int InnerTypedef; InnerTypedef it; };
union TaggedUnion { Scoped s; Derived* d; char raw[16]; };
struct alignas(32) OverAligned { char c; };
struct WithArrays { int big[100]; Box<int> boxes[2]; char name[33]; int multi[2][3]; };
using FnPtr = int (*)(Box<int>*, ...);
struct WithFnPtr { FnPtr f; void (*cb)(void*, int); };
