// Feature-dense Objective-C header for the configuration sweep.
@class Forward;
@protocol Proto
- (void)protoMethod:(int)a;
+ (id)protoClassMethod;
@end
@interface Root
+ (id)alloc;
- (id)init;
@end
@interface Shape : Root <Proto>
@property int width;
@property (readonly) Forward* next;
- (void)blend:(int)a Self:(int)b;
- (void)mix:(int)a self:(int)b super:(int)c crate:(int)d;
- (int)type:(int)a fn:(int)b as:(int)c match:(int)d;
- (void)move:(int)a impl:(int)b dyn:(int)c;
+ (Shape*)shapeWithWidth:(int)w height:(int)h;
- (void)takesBlock:(void (^)(int))block;
- (id)initWithShape:(Shape*)other;
@end
@interface Shape (Category)
- (void)categoryMethod;
@end
@interface Generic<T> : Root
- (T)get;
- (void)put:(T)value;
@end
struct UsesObjc { Shape* s; id any; SEL sel; Class cls; };
void take_shape(Shape* s, id<Proto> p);
