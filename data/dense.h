// Feature-dense C header for the configuration sweep: many declaration shapes in one place.
#include <stddef.h>
#define K_INT 42
#define K_NEG -7
#define K_STR "text"
#define K_FLT 1.5
#define K_SHIFT (1u << 20)
#define K_BIG 0xFFFFFFFFFFull
#define K_CHAR 'c'
typedef unsigned char u8_t;
typedef unsigned long long u64_t;
typedef int (*binop_t)(int, int);
typedef void (*many_args_t)(int, int, int, int, int, int, int, int, int, int, int, int, int, int);
enum color { RED, GREEN = 5, BLUE = -1 };
enum { ANON_A = 1, ANON_B = 2 };
typedef enum { TD_X, TD_Y } td_enum_t;
enum flags { F_NONE = 0, F_A = 1, F_B = 2, F_AB = 3, F_DUP = 1 };
/** Enum with bindgen annotations on its variants. */
enum annotated {
    AN_FIRST,
    /** <div rustbindgen constant></div> */
    AN_COUNT,
    /** <div rustbindgen constant></div> */
    AN_LAST = AN_COUNT,
    /** <div rustbindgen hide></div> */
    AN_HIDDEN = 7,
    /** <div rustbindgen constant></div> */
    AN_ALIAS_OF_HIDDEN = 7,
    AN_PLAIN_DUP = 0,
};
/** <div rustbindgen opaque></div> */
struct annotated_opaque { int hidden_a; double hidden_b; };
/** <div rustbindgen nocopy></div> */
struct annotated_nocopy { int n; };
struct ReplaceTarget { int rt; };
/** <div rustbindgen replaces="ReplaceTarget"></div> */
extern int replace_count;
/** <div rustbindgen replaces="ReplacedByStruct"></div> */
struct Replacement { long r; };
struct ReplacedByStruct { int old_field; };
struct fwd;
struct point { int x, y; };
struct with_anon_enum {
    enum { INNER_ONE, INNER_TWO = 7 } tag;
    enum named_inner { NI_A, NI_B } other;
    int v;
};
struct with_anon_members {
    union { int i; float f; struct { short lo, hi; }; };
    struct { u8_t r, g, b; } rgb;
    union { u64_t wide; double d; } u;
};
struct bits { unsigned a : 1; unsigned b : 3; signed c : 4; unsigned long long d : 40; u8_t e : 2; int : 0; unsigned f : 9; };
struct big_array { int small[4]; int large[64]; char text[33]; u64_t matrix[3][5]; };
struct flexible { size_t n; int tail[]; };
struct zero_len { int n; int z[0]; };
struct self_ref { struct self_ref* next; struct fwd* opaque_ptr; binop_t op; many_args_t many; };
struct packed_s { char c; int i; } __attribute__((packed));
struct aligned_s { char c; } __attribute__((aligned(16)));
struct nested_outer { struct nested_inner { int deep; struct { int deeper; } anon; } in; struct point pts[3]; };
union plain_union { int i; float f; char bytes[8]; struct point p; };
typedef struct { int only; } anon_typedef_t;
typedef struct tagged { int t; } tagged_t, *tagged_ptr_t;
typedef float vec4 __attribute__((vector_size(16)));
struct uses_vec { vec4 v; _Complex double z; long double ld; _Bool flag; };
extern int global_int;
extern const char* const global_str;
extern struct point global_point;
extern const int global_arr[3];
int plain_fn(int a, const char* s);
void variadic_fn(const char* fmt, ...);
struct point returns_struct(struct with_anon_members m, union plain_union u);
binop_t returns_fnptr(int which);
void takes_array(int a[10], struct point pts[], enum color c);
static inline int inline_fn(int x) { return x + K_INT; }
_Noreturn void never_returns(void);
int int_keyword_names(int type, int fn, int match, int self);
struct keyword_fields { int type; int impl; int box; int dyn; int async; };
