"""C15 — formatter choice changes only whitespace; formatter failure is not
fatal. Formatter-sim (DESIGN.md section 5.2): the real Bindings::write /
format_tokens against a simulated child, pipes and writer thread under shuttle,
plus a real-process tier with a scripted fake formatter."""
import json
import os
import shutil
import stat
import time

from common import (BVSIM, HarnessError, NCPU, Outcome, Rng, TARGET, log, make_scratch, remove_scratch,
                    run_requests)

FAKEFMT = os.path.join(TARGET, "debug", "fakefmt")
CAPS = [1, 7, 4096, 65536, 0]
EXITS_FAIL = [1, 2, 101, 255, None, None]  # None = killed by a signal (SIGKILL / SIGSEGV look alike to the parent)
WRITE_KINDS = ["echo", "formatted", "garbage", "badutf8"]


LARGE_FROM = 6  # index of the first prepared bindings (size index * 2 + variant) that is megabytes large


def fit_caps(case, nbind):
    """One-byte pipes against megabytes of input cost a scheduler step per byte:
    the largest bindings get realistic pipe sizes only."""
    if case["bindings"] >= LARGE_FROM:
        for k in ("cap_in", "cap_out"):
            if case.get(k, 0) in (1, 7):
                case[k] = 65536 if case[k] == 1 else 4096
    return case


def sim_sizes(tier):
    # number of structs in the prepared bindings: small, medium, large (>1 MB of tokens)
    # the large ones come last so that `bindings >= 2 * (len - large)` identifies them; 0 = empty bindings
    return [0, 1, 60, 4000] if tier == "quick" else [0, 1, 60, 4000, 12000]


def enumerate_cases(nbind):
    """The fault modes the property lists, crossed with read / write classes."""
    cases = []

    def add(name, **kw):
        c = {"id": f"e{len(cases)}-{name}", "spawn": "ok", "steps": [], "exit": 0,
             "cap_in": 0, "cap_out": 0, "short": 0, "eintr": 0}
        c.update(kw)
        cases.append(c)

    for b in range(nbind):
        for sp in ("notfound", "perm", "other"):
            add(f"spawn-{sp}", bindings=b, spawn=sp)
        reads = {"readall": [{"readall": True}], "noread": [], "read100": [{"read": 100}],
                 "closein": [{"close": "stdin"}], "read-then-closein": [{"read": 10}, {"close": "stdin"}]}
        for rname, rsteps in reads.items():
            for part in ("none", "half", "all"):
                for ex in (1, 2, 101, 255, None):
                    add(f"{rname}-fmt-{part}-exit{ex}", bindings=b,
                        steps=rsteps + [{"write": {"kind": "formatted", "part": part}}], exit=ex,
                        cap_in=CAPS[(len(cases)) % 5], cap_out=CAPS[(len(cases) // 5) % 5])
        for ex in (0, 3):
            for kind in ("echo", "formatted"):
                for part in ("all", "half"):
                    add(f"success-{kind}-{part}-exit{ex}", bindings=b,
                        steps=[{"readall": True}, {"write": {"kind": kind, "part": part}}], exit=ex,
                        cap_in=CAPS[len(cases) % 5], cap_out=CAPS[(len(cases) // 3) % 5])
        add("badutf8-exit0", bindings=b, steps=[{"readall": True}, {"write": {"kind": "badutf8", "part": "all"}}], exit=0)
        add("badutf8-exit1", bindings=b, steps=[{"readall": True}, {"write": {"kind": "badutf8", "part": "all"}}], exit=1)
        add("garbage-exit0", bindings=b, steps=[{"readall": True}, {"write": {"kind": "garbage", "part": "all"}}], exit=0)
        add("write-before-read", bindings=b, steps=[{"write": {"kind": "garbage", "part": "all"}}, {"readall": True},
                                                     {"write": {"kind": "formatted", "part": "all"}}], exit=0, cap_in=7, cap_out=7)
        add("closeout-early", bindings=b, steps=[{"close": "stdout"}, {"readall": True}], exit=0, cap_in=7)
        add("closeout-early-fail", bindings=b, steps=[{"read": 5}, {"close": "stdout"}, {"readall": True}], exit=1, cap_in=1)
        add("never-read-exit0", bindings=b, steps=[{"write": {"kind": "garbage", "part": "all"}}], exit=0, cap_in=4096, cap_out=1)
        add("never-read-sig", bindings=b, steps=[], exit=None, cap_in=4096)
        add("wait-error", bindings=b, steps=[{"readall": True}, {"write": {"kind": "formatted", "part": "all"}}], exit=0, wait_err=True)
        add("stdout-read-error", bindings=b, steps=[{"readall": True}, {"write": {"kind": "formatted", "part": "all"}}],
            exit=0, read_err_at=2, cap_out=7)
        add("stdout-read-error-first", bindings=b, steps=[{"readall": True}, {"write": {"kind": "formatted", "part": "all"}}],
            exit=0, read_err_at=1)
    return cases


def random_case(rng, idx, nbind):
    steps = []
    for _ in range(rng.below(5)):
        r = rng.below(100)
        if r < 25:
            steps.append({"readall": True})
        elif r < 45:
            steps.append({"read": rng.pick([1, 7, 100, 5000, 100000])})
        elif r < 80:
            steps.append({"write": {"kind": rng.pick(WRITE_KINDS), "part": rng.pick(["all", "half", "none"])}})
        elif r < 90:
            steps.append({"close": "stdin"})
        else:
            steps.append({"close": "stdout"})
    c = {"id": f"r{idx}", "bindings": rng.below(nbind), "spawn": "ok" if rng.chance(930) else rng.pick(["notfound", "perm", "other"]),
         "steps": steps, "exit": rng.pick([0, 0, 0, 3, 3] + EXITS_FAIL),
         "cap_in": rng.pick(CAPS), "cap_out": rng.pick(CAPS),
         "short": rng.pick([0, 100, 500]), "eintr": rng.pick([0, 0, 30, 200]),
         "out_short": rng.pick([0, 0, 300]), "out_eintr": rng.pick([0, 0, 100])}
    if rng.chance(40):
        c["wait_err"] = True
    if rng.chance(40):
        c["read_err_at"] = 1 + rng.below(4)
    return c


def sig_of(failure):
    msg = failure.get("message", "")
    cls = "deadlock" if "deadlock" in msg else (msg.split(":")[0].replace("C15VIOL ", "") if "C15VIOL" in msg else
                                                  ("step-bound" if "exceeded max_steps" in msg or "max_steps" in msg else "panic"))
    c = failure["case"]
    ex = c.get("exit")
    return {"class": cls, "tier": "sim", "spawn": c.get("spawn"),
            "exit": "signal" if ex is None else ex}


def minimise(failure, sizes, seed, schedules):
    """Shrink the script, pipe limits and fault rates while some schedule still
    fails with the same class; returns (case, schedule, message)."""
    want = sig_of(failure)["class"]
    best = failure

    def attempt(case):
        r = run_requests([{"op": "c15", "sizes": sizes, "seed": seed, "schedules": schedules,
                           "schedule_dir": os.path.join(make_scratch_dir(), "min"), "cases": [case]}],
                         workers=1, timeout=600)[0]
        for f in r.get("failures", []):
            if sig_of(f)["class"] == want:
                return f
        return None

    scratch = make_scratch("c15-min")

    def make_scratch_dir():
        return scratch

    try:
        changed = True
        budget = 40
        while changed and budget > 0:
            changed = False
            case = best["case"]
            cands = []
            for i in range(len(case.get("steps", []))):
                c = json.loads(json.dumps(case))
                del c["steps"][i]
                cands.append(c)
            for k, v in (("short", 0), ("eintr", 0), ("out_short", 0), ("out_eintr", 0), ("cap_in", 0), ("cap_out", 0),
                         ("bindings", 0)):
                if case.get(k, 0) != v:
                    c = json.loads(json.dumps(case))
                    c[k] = v
                    cands.append(c)
            for k in ("wait_err", "read_err_at"):
                if case.get(k):
                    c = json.loads(json.dumps(case))
                    c.pop(k)
                    cands.append(c)
            for c in cands:
                budget -= 1
                if budget <= 0:
                    break
                c["id"] = case["id"]
                f = attempt(c)
                if f is not None:
                    best = f
                    changed = True
                    break
    finally:
        remove_scratch(scratch)
    return best


def real_fixture(scratch):
    """File-system states the formatter path can point at."""
    missing = os.path.join(scratch, "no-such-formatter")
    adir = os.path.join(scratch, "a-directory")
    os.makedirs(adir, exist_ok=True)
    noexec = os.path.join(scratch, "not-executable")
    with open(noexec, "w") as f:
        f.write("#!/bin/sh\ncat\n")
    os.chmod(noexec, 0o644)
    garbage_exe = os.path.join(scratch, "garbage-exe")
    with open(garbage_exe, "wb") as f:
        f.write(b"\x00\x01not an executable format\n")
    os.chmod(garbage_exe, 0o755)
    cfgfile = os.path.join(scratch, "rustfmt.toml")
    with open(cfgfile, "w") as f:
        f.write("max_width = 60\nhard_tabs = true\n")
    with open(os.path.join(os.fsencode(scratch), b"cfg-\xff\xfe.toml"), "w") as f:
        f.write("max_width = 80\n")
    return {"@NONUTF8CFG@": "nonutf8:" + scratch, "@MISSING@": missing, "@DIR@": adir, "@NOEXEC@": noexec, "@GARBAGE@": garbage_exe,
            "@FAKEFMT@": FAKEFMT, "@RUSTFMT@": shutil.which("rustfmt") or "", "@CFG@": cfgfile}


def resolve(case, fixture):
    c = dict(case)
    for k in ("rustfmt", "config", "rustfmt_env"):
        if c.get(k) in fixture:
            c[k] = fixture[c[k]]
    return c


def real_cases(tier, seed):
    """Real-process tier: rustfmt_path pointed at a missing path, a directory, a
    non-executable file and the scripted fake formatter (real kernel pipes,
    real exit statuses and signals)."""
    missing, adir, noexec, garbage_exe = "@MISSING@", "@DIR@", "@NOEXEC@", "@GARBAGE@"
    FAKEFMT = "@FAKEFMT@"
    cases = []

    def add(name, size, variant, rustfmt, script="", expect="model", **kw):
        c = {"op": "c15-real", "id": f"real{len(cases)}-{name}", "size": size, "variant": variant,
             "rustfmt": rustfmt, "script": script, "expect": expect}
        c.update(kw)
        cases.append(c)

    big = 4000
    for size in (1, 60):
        for variant in (0, 1):
            add("missing", size, variant, missing, expect="fallback")
            add("directory", size, variant, adir, expect="fallback")
            add("noexec", size, variant, noexec, expect="fallback")
            add("garbage-exe", size, variant, garbage_exe, expect="fallback")
    scripts = []
    for ex in ("exit:1", "exit:2", "exit:101", "exit:255", "kill:9", "kill:11", "kill:15"):
        for w in ("", "write:formatted:half", "write:formatted:all"):
            scripts.append(";".join(x for x in ("readall", w, ex) if x))
    scripts += ["readall;write:badutf8:all;exit:0", "readall;write:badutf8:all;exit:3",
                "closein;exit:0", "closein;exit:1", "closein;write:garbage:all;exit:1",
                "read:10;closein;write:formatted:all;exit:1",
                "closeout;readall;exit:0", "closeout;readall;exit:1",
                "readall;write:formatted:all;exit:0", "readall;write:echo:all;exit:0",
                "readall;write:formatted:all;exit:3", "readall;write:formatted:half;exit:0",
                "write:big:all;exit:1", "write:big:all;readall;exit:1", "write:big:all;exit:0",
                "exit:1", "exit:0", "kill:9", "read1:2000;write:formatted:all;exit:0",
                "read1:500;exit:2"]
    for i, s in enumerate(scripts):
        add("script", 60 if i % 2 else 1, i % 2, FAKEFMT, s, sink=["vec", "file", "string"][i % 3])
    # empty bindings: nothing to feed, the child must still see end-of-file
    for s in ("readall;write:formatted:all;exit:0", "readall;exit:1", "readall;write:garbage:all;exit:2", "exit:0"):
        add("empty-bindings", 0, len(cases) % 2, FAKEFMT, s, timeout_s=30)
    # a formatter that only fails when it is given a configuration file
    for size in (1, 60):
        add("fail-only-with-config", size, size % 2, FAKEFMT, "readall;failifconfig;write:formatted:all;exit:0", config="@CFG@")
        add("fail-only-with-config-absent", size, size % 2, FAKEFMT, "readall;failifconfig;write:formatted:all;exit:0")
    # the formatter named by $RUSTFMT instead of with_rustfmt()
    for env_v, exp, scr in (("", "fallback", ""), ("   ", "fallback", ""), ("@MISSING@", "fallback", ""), ("@DIR@", "fallback", ""),
                            ("@FAKEFMT@", "model", "readall;write:formatted:all;exit:0"),
                            ("@FAKEFMT@", "model", "readall;write:formatted:half;exit:1")):
        for size in (1, 60):
            add("rustfmt-env", size, size % 2, "", scr, expect=exp, rustfmt_env=env_v)
    # never reads stdin on a multi-megabyte input; slow reader; big output before reading
    for s in ("exit:1", "kill:9", "write:big:all;exit:1", "write:big:all;exit:0", "closein;write:big:all;exit:2",
              "read:100000;exit:1", "read1:3000;exit:1", "readall;write:formatted:all;exit:0",
              "readall;write:formatted:half;exit:255", "write:big:all;readall;write:formatted:all;exit:3"):
        add("large", big, 0, FAKEFMT, s)
    if tier == "thorough":
        rng = Rng.for_case(seed, "c15-real", 0)
        ops = ["readall", "read:100", "read:100000", "read1:300", "write:formatted:all", "write:formatted:half",
               "write:echo:all", "write:garbage:all", "write:badutf8:all", "write:big:all", "closein", "closeout"]
        ends = ["exit:0", "exit:0", "exit:3", "exit:1", "exit:2", "exit:101", "exit:255", "kill:9", "kill:11"]
        for i in range(1500):
            s = ";".join([rng.pick(ops) for _ in range(rng.below(4))] + [rng.pick(ends)])
            add("rand", rng.pick([1, 60, 60, big]), rng.below(2), FAKEFMT, s)
    # fault-free configuration with the real tools: all three formatter settings tokenise identically
    rustfmt = "@RUSTFMT@" if shutil.which("rustfmt") else ""
    cfgfile = "@CFG@"
    for size in (0, 1, 60):
        for variant in (0, 1):
            add("prettyplease", size, variant, "", expect="tokens", formatter="prettyplease")
            add("prettyplease-to-file", size, variant, "", expect="tokens", formatter="prettyplease", sink="file")
            add("prettyplease-to-string", size, variant, "", expect="tokens", formatter="prettyplease", sink="string")
            add("none", size, variant, "", expect="tokens", formatter="none")
            add("fake-ok-nonutf8-config", size, variant, FAKEFMT, "readall;write:formatted:all;exit:0", config="@NONUTF8CFG@")
            add("fake-fail-nonutf8-config", size, variant, FAKEFMT, "readall;write:formatted:half;exit:1", config="@NONUTF8CFG@")
            if rustfmt:
                add("real-rustfmt-nonutf8-config", size, variant, rustfmt, expect="tokens", config="@NONUTF8CFG@")
                add("real-rustfmt", size, variant, rustfmt, expect="tokens")
                add("real-rustfmt-config", size, variant, rustfmt, expect="tokens", config=cfgfile)
    return cases, bool(rustfmt)


def run(tier, seed):
    out = Outcome("C15", tier, seed, "fault_enumeration")
    quick = tier == "quick"
    sizes = sim_sizes(tier)
    nbind = len(sizes) * 2
    if not os.path.exists(FAKEFMT):
        raise HarnessError("fakefmt binary missing")
    scratch = make_scratch("c15")
    sched_dir = os.path.join(scratch, "sched")

    # ------------------------------------------------------------ simulated tier
    cases = enumerate_cases(nbind)
    n_enum = len(cases)
    n_rand = 300 if quick else 12000
    for i in range(n_rand):
        cases.append(random_case(Rng.for_case(seed, "c15-rand", i), i, nbind))
    schedules = 12 if quick else 40
    cases = [fit_caps(c, nbind) for c in cases]
    big_first = [c for c in cases if c["bindings"] >= LARGE_FROM] + [c for c in cases if c["bindings"] < LARGE_FROM]
    # large bindings are expensive per execution: fewer schedules for them
    reqs = []
    chunk = 24
    for lo in range(0, len(big_first), chunk):
        part = big_first[lo:lo + chunk]
        large = any(c["bindings"] >= LARGE_FROM for c in part)
        reqs.append({"op": "c15", "sizes": sizes, "seed": seed, "schedules": max(3, schedules // 4) if large else schedules,
                     "schedule_dir": sched_dir, "cases": part})
    # PCT scheduler on the enumerated cases (priority-based, finds ordering bugs random misses)
    for depth in ((2,) if quick else (1, 2, 3)):
        small = [c for c in cases[:n_enum] if c["bindings"] < LARGE_FROM and c["spawn"] == "ok"]  # PCT needs concurrency
        for lo in range(0, len(small), chunk * 2):
            reqs.append({"op": "c15", "sizes": sizes, "seed": seed + depth, "schedules": 6 if quick else 30,
                         "pct_depth": depth, "schedule_dir": sched_dir, "cases": small[lo:lo + chunk * 2]})
    log(f"[C15] simulated tier: {len(cases)} scripts ({n_enum} enumerated + {n_rand} seeded), {len(reqs)} batches")
    res = run_requests(reqs, timeout=600, progress=50)
    # determinism self-check: the first batches again, each in a fresh process
    pick = reqs[-(2 if quick else 8):]  # the cheap batches (small bindings, PCT)
    again = run_requests(pick, timeout=1800, workers=1)
    det = lambda r: json.dumps([r.get("executions"), r.get("distinct_interleavings"), r.get("stats"),
                                [f.get("message") for f in r.get("failures", [])]], sort_keys=True)
    bad_self = sum(1 for x, y in zip(res[-len(pick):], again) if det(x) != det(y))
    if bad_self:
        out.harness_errors.append(f"determinism self-check: {bad_self} simulated batches differ when run again")
    log(f"[C15] determinism self-check: {len(again)} batches run twice, {bad_self} differ")
    executions = 0
    distinct = 0
    stats = {}
    sim_failures = []
    for rq, r in zip(reqs, res):
        if r.get("kind") in ("crash", "timeout") or "executions" not in r:
            out.violation({"class": "driver-" + str(r.get("kind", "error")), "tier": "sim"},
                          {"engine": "c15", "kind": "sim-batch", "request": rq, "observed": r})
            continue
        executions += r["executions"]
        distinct += r["distinct_interleavings"]
        sim_failures.extend(r["failures"])
    seen_classes = set()
    for f in sim_failures:
        sig = sig_of(f)
        key = json.dumps(sig, sort_keys=True)
        if key in seen_classes:
            continue
        seen_classes.add(key)
        m = minimise(f, sizes, seed, schedules) if len(seen_classes) <= 6 else f
        doc = {"engine": "c15", "kind": "sim", "sizes": sizes, "case": m["case"],
               "schedule": m.get("schedule"), "message": m.get("message"), "original_case": f["case"]}
        if len(seen_classes) <= 6:
            # A failure that does not reproduce from (script, schedule) alone depends on
            # what the process ran before (state surviving between executions): keep the
            # whole batch as the replay unit then.
            ok = False
            if doc["schedule"]:
                r1 = run_requests([{"op": "c15-replay", "sizes": sizes, "case": doc["case"], "schedule": doc["schedule"]}],
                                  workers=1, timeout=600)[0]
                ok = bool(r1.get("reproduced")) and sig_of({"message": r1.get("message", ""), "case": doc["case"]})["class"] == sig["class"]
            if not ok:
                batch = next((rq for rq, r in zip(reqs, res) if f in r.get("failures", [])), None)
                if batch is not None:
                    doc = {"engine": "c15", "kind": "sim-batch", "request": batch, "case_id": f["case"]["id"],
                           "message": f.get("message"), "note": "not reproducible from script+schedule alone: depends on "
                           "earlier executions in the same process; replay re-runs the whole batch in a fresh process"}
        out.violation(sig, doc)

    # ------------------------------------------------------------ real-process tier
    rcases, have_rustfmt = real_cases(tier, seed)
    fixture = real_fixture(scratch)
    log(f"[C15] real-process tier: {len(rcases)} runs (real rustfmt available: {have_rustfmt})")
    rres = run_requests([resolve(c, fixture) for c in rcases], timeout=60, workers=min(NCPU, 8), progress=200)
    real_classes = {}
    for c, r in zip(rcases, rres):
        if r.get("kind") == "timeout":
            r = {"ok": False, "class": "hang", "message": "Bindings::write did not return within 60 s"}
        elif r.get("kind") == "crash":
            r = {"ok": False, "class": "crash", "message": f"driver died with status {r.get('status')}"}
        real_classes[r.get("class", "?")] = real_classes.get(r.get("class", "?"), 0) + 1
        if not r.get("ok"):
            how = "path" if c["expect"] == "fallback" else ("real-formatter" if c["expect"] == "tokens" else "script")
            sig = {"class": r.get("class"), "tier": "real", "how": how,
                   "end": (c["script"].split(";")[-1] if c["script"] else c["id"].split("-", 1)[1])}
            out.violation(sig, {"engine": "c15", "kind": "real", "case": c, "observed": r})
    remove_scratch(scratch)

    fired = {}
    for r in res:
        for k, v in (r.get("stats") or {}).items():
            fired[k] = fired.get(k, 0) + v
    hours = max(1e-9, (time.time() - out.t0) / 3600.0)
    out.coverage = {
        "evaluations": executions + len(rcases),
        "distinct_nontrivial": distinct,
        "rule": "one evaluation = one execution of the real Bindings::write()/format_tokens() against one formatter "
                "script under one schedule (simulated tier) or one real child process (real tier); distinct = distinct "
                "(script, interleaving fingerprint) pairs, the fingerprint being the hash of the ordered pipe events "
                "(who read/wrote/was interrupted/hit EPIPE and how many bytes); executions whose event log is empty "
                "(spawn failures) collapse to one per script",
        "samples": [cases[0], cases[n_enum // 2], cases[n_enum] if n_rand else cases[-1], rcases[len(rcases) // 2]],
        "exhaustive": False,
        "simulated_executions": executions,
        "scripts_enumerated": n_enum,
        "scripts_seeded": n_rand,
        "real_process_runs": len(rcases),
        "real_process_outcomes": real_classes,
        "real_rustfmt_used": have_rustfmt,
        "fault_kinds_fired": fired,
        "schedulers": ["shuttle RandomScheduler", "shuttle PctScheduler"],
        "determinism_selfcheck": {"batches_run_twice": len(again), "differing": bad_self},
        "runs_per_hour": int((executions + len(rcases)) / hours),
        "simulated_time": "no clock; simulated time is pipe events (pipe_events)",
        "real_vs_stub": {"Bindings::write / format_tokens": "real", "Command/Child/pipes/writer thread": "stub under "
                         "shuttle (simulated tier); real kernel objects (real tier)", "rustfmt": "scripted fake; real "
                         "rustfmt only in the fault-free configuration", "prettyplease": "real"},
    }
    out.assumptions = [
        "a formatter that exits 0 or 3 with valid UTF-8 output is trusted (whatever it wrote is the expected body)",
        "a child that neither exits nor closes its pipes is outside the claim and not generated",
        "the output Write handed to Bindings::write never fails permanently (short writes and EINTR only)",
    ]
    return out.finish()


def replay(doc):
    kind = doc.get("kind")
    if kind == "sim":
        if not doc.get("schedule"):
            raise HarnessError("replay file has no schedule")
        r = run_requests([{"op": "c15-replay", "sizes": doc["sizes"], "case": doc["case"],
                           "schedule": doc["schedule"]}], workers=1, timeout=600)[0]
        if not r.get("reproduced"):
            return False, r
        got = sig_of({"message": r.get("message", ""), "case": doc["case"]})["class"]
        return got == doc["signature"]["class"], r
    if kind == "sim-batch":
        r = run_requests([doc["request"]], workers=1, timeout=1800)[0]
        want = doc["signature"]["class"]
        for f in r.get("failures", []):
            if sig_of(f)["class"] == want:
                return True, {"case": f["case"]["id"], "message": f.get("message")}
        return False, {"failures": len(r.get("failures", []))}
    if kind == "real":
        scratch = make_scratch("c15-replay")
        try:
            c = resolve(doc["case"], real_fixture(scratch))
            r = run_requests([c], workers=1, timeout=120)[0]
            if r.get("kind") == "timeout":
                return doc["observed"].get("class") == "hang", r
            return (not r.get("ok")) and r.get("class") == doc["observed"].get("class"), r
        finally:
            remove_scratch(scratch)
    raise HarnessError(f"unknown C15 replay kind {kind}")
