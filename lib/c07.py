"""C07 — inferred facts are the least fixed point; declaration order is
irrelevant. Fixpoint schedule simulation (DESIGN.md section 3)."""
import json
import os
import time

import gen_decls
from common import (HarnessError, Outcome, Rng, corpus_jobs, fp, log, make_scratch, remove_scratch,
                    run_requests, write_header_job)

PERTURB = {"stutter": 150, "dup": 200, "reorder": 600, "dedup": 300}


def fix_cfg(seed, perturb=True, reference=True, record_order=False, forced=None):
    cfg = {"seed": seed, "reference": reference, "record_order": record_order}
    if forced is not None:
        cfg["forced"] = forced
    elif perturb:
        cfg.update(PERTURB)
    return cfg


def solver_problems(resp):
    """Violations visible in one generation's fixpoint report (O-ref, O-live)."""
    out = []
    fix = resp.get("fix") or {}
    for d in fix.get("consulted_diffs", []):
        prod, ref = d.get("production"), d.get("reference")
        pr = (prod or {}).get("rank", 0)
        rr = (ref or {}).get("rank", 0)
        cls = "not-a-fixed-point" if pr < rr else ("above-least-fixed-point" if pr > rr else "incomparable")
        out.append({"class": cls, "analysis": d["analysis"], "item": d["item"],
                    "production": prod, "reference": ref})
    for r in fix.get("runs", []):
        if r.get("oscillation") is not None:
            out.append({"class": "oscillation", "analysis": r["analysis"], "item": r["oscillation"]})
        if r.get("nonconfluent"):
            out.append({"class": "non-monotone", "analysis": r["analysis"]})
    return out


def facts_vector(resp):
    fix = resp.get("fix") or {}
    return [(r["analysis"], r["facts_fp"]) for r in fix.get("runs", [])]


def order_vector(resp):
    fix = resp.get("fix") or {}
    return tuple((r["analysis"], r["order_fp"]) for r in fix.get("runs", []))


def nontrivial(resp):
    fix = resp.get("fix") or {}
    return any(r.get("pushes", 0) > 0 for r in fix.get("runs", []))


class Stats:
    def __init__(self):
        self.generations = 0
        self.solver_runs = 0
        self.reference_runs = 0
        self.facts = 0
        self.events = {"stutter": 0, "dup": 0, "reorder": 0, "dedup": 0}
        self.order_fps = set()
        self.nontrivial_order_fps = set()
        self.unconsulted_diffs = 0
        self.fact_leads = 0
        self.consults = 0
        self.max_changes_ratio = 0.0
        self.pops = 0
        self.ref_evals = 0

    def absorb(self, resp):
        self.generations += 1
        fix = resp.get("fix") or {}
        self.consults += fix.get("consults", 0)
        for r in fix.get("runs", []):
            self.solver_runs += 1
            self.reference_runs += 1 if r.get("ref_ran") else 0
            self.facts += r.get("facts", 0)
            self.events["stutter"] += r.get("stutters", 0)
            self.events["dup"] += r.get("dups", 0)
            self.events["reorder"] += r.get("reorders", 0)
            self.events["dedup"] += r.get("dedups", 0)
            self.unconsulted_diffs += len(r.get("diffs", []))
            self.pops += r.get("pops", 0)
            self.ref_evals += r.get("ref_evals", 0)
            if r.get("height"):
                self.max_changes_ratio = max(self.max_changes_ratio, r.get("maxc", 0) / r["height"])
        ov = order_vector(resp)
        self.order_fps.add(ov)
        if nontrivial(resp):
            self.nontrivial_order_fps.add(ov)


def match_unknown(out, sig):
    """True if this signature is neither a known finding nor already recorded
    (only then is the cost of minimising worth paying)."""
    from common import match_known
    if match_known(out.prop, sig, out.known) is not None:
        return False
    return all(s != sig for s, _ in out.violations)


def gen_req(job, cfg, inventory=False, text=False):
    return {"op": "gen", "job": job, "fix": cfg, "want_inventory": inventory, "want_text": text}


def inv_diff(a, b):
    """Differences between two inventories (lists of [key, text])."""
    da, db = {}, {}
    for k, t in a:
        da.setdefault(k, []).append(t)
    for k, t in b:
        db.setdefault(k, []).append(t)
    out = []
    for k in sorted(set(da) | set(db)):
        if sorted(da.get(k, [])) != sorted(db.get(k, [])):
            out.append({"item": k, "a": da.get(k), "b": db.get(k)})
    return out


def fingerprint_of(resp):
    """Everything of a response that must be a pure function of the request."""
    fix = resp.get("fix") or {}
    return json.dumps([resp.get("kind"), resp.get("fp"), resp.get("err"),
                       [(r["analysis"], r["order_fp"], r["facts_fp"], r["pops"], r["stutters"], r["dups"],
                         r["reorders"], r["dedups"]) for r in fix.get("runs", [])],
                       fix.get("events"), fix.get("points")], sort_keys=True)


def selfcheck(seed, n, out=None):
    """Determinism: the same requests, once on one worker and once on many, must
    give identical schedule fingerprints and observations. A difference is a
    harness error, never a violation."""
    scratch = make_scratch("c07-self")
    try:
        reqs = []
        for i in range(n):
            prng = Rng.for_case(seed, "c07-self", i)
            prog = gen_decls.gen_program(prng, max_entities=8)
            ords, _ = gen_decls.orders(prog, prng, 2)
            for k, o in enumerate(ords):
                job = write_header_job(scratch, f"s{i}.o{k}", gen_decls.header_name(prog), gen_decls.render(prog, o),
                                       prog.flags, {"callbacks": True} if prog.callbacks else None)
                reqs.append(gen_req(job, fix_cfg(prng.next())))
        # identical process histories (one fresh worker each time): everything must agree;
        # many workers (other histories): the result of each generation must still agree
        a = run_requests(reqs, workers=1, timeout=300)
        b = run_requests(reqs, workers=1, timeout=300)
        c = run_requests(reqs, workers=min(16, len(reqs)), timeout=300)
        bad = [i for i, (x, y) in enumerate(zip(a, b)) if fingerprint_of(x) != fingerprint_of(y)]
        bad += [i for i, (x, y) in enumerate(zip(a, c)) if (x.get("kind"), x.get("fp")) != (y.get("kind"), y.get("fp"))]
        if bad and out is not None:
            out.harness_errors.append(f"determinism self-check: {len(bad)} of {len(reqs)} requests differ between "
                                      f"repeated runs (first: request {bad[0]})")
        return len(reqs), len(bad)
    finally:
        remove_scratch(scratch)


def minimise_events(job, events, want_class, baseline_fp, scratch):
    """Delta-debug the forced perturbation events of a failing run: drop events
    while a run forced to the remaining ones still shows the same violation
    class. Returns the reduced event list (always re-checked by replay)."""
    from common import materialise
    j = materialise(job, scratch)

    def fails(ev):
        r = run_requests([gen_req(j, fix_cfg(0, forced=ev))], workers=1, timeout=300)[0]
        if (r.get("fix") or {}).get("forced_mismatch"):
            return False
        probs = solver_problems(r)
        if baseline_fp and r.get("kind") == "ok" and r.get("fp") != baseline_fp:
            probs.append({"class": "bindings-differ-under-perturbation"})
        return any(p["class"] == want_class for p in probs)

    if not events or not fails(events):
        return events
    if fails([]):
        return []
    cur = list(events)
    chunk = max(1, len(cur) // 2)
    budget = 60
    while chunk >= 1 and budget > 0:
        i = 0
        shrunk = False
        while i < len(cur) and budget > 0:
            cand = cur[:i] + cur[i + chunk:]
            budget -= 1
            if fails(cand):
                cur = cand
                shrunk = True
            else:
                i += chunk
        if chunk == 1 and not shrunk:
            break
        chunk = max(1, chunk // 2) if chunk > 1 else (1 if shrunk else 0)
    return cur


def minimise_program(prog, order_a, order_b, job, scratch, budget=24):
    """Drop top-level declarations that nothing else needs while the two orders
    still give different inventories. Returns (text_a, text_b) of the smallest
    pair found (always re-checked by actually running both)."""
    def differ(oa, ob, tag):
        ja = write_header_job(scratch, f"min-{tag}-a", gen_decls.header_name(prog), gen_decls.render(prog, oa), job["flags"],
                              {"callbacks": True} if job.get("callbacks") else None)
        jb = write_header_job(scratch, f"min-{tag}-b", gen_decls.header_name(prog), gen_decls.render(prog, ob), job["flags"],
                              {"callbacks": True} if job.get("callbacks") else None)
        ra, rb = run_requests([gen_req(ja, fix_cfg(0, perturb=False, reference=False), inventory=True),
                               gen_req(jb, fix_cfg(0, perturb=False, reference=False), inventory=True)], workers=2, timeout=300)
        if ra.get("kind") != "ok" or rb.get("kind") != "ok" or "inv" not in ra or "inv" not in rb:
            return False
        return bool(inv_diff(ra["inv"], rb["inv"]))

    named_in_flags = {f for f in job["flags"] if not f.startswith("-")}
    oa, ob = list(order_a), list(order_b)
    if not differ(oa, ob, "0"):
        return None  # the difference needs the perturbation of one of the runs; keep the original
    n = 0
    changed = True
    while changed and budget > 0:
        changed = False
        live = {name for _, name in oa}
        for e in reversed(prog.entities):
            if e.name not in live or e.name in named_in_flags:
                continue
            if any(e.name in (o.hard | o.soft) for o in prog.entities if o.name in live and o.name != e.name):
                continue
            ca = [it for it in oa if it[1] != e.name]
            cb = [it for it in ob if it[1] != e.name]
            budget -= 1
            n += 1
            if differ(ca, cb, str(n)):
                oa, ob, changed = ca, cb, True
                break
            if budget <= 0:
                break
    return gen_decls.render(prog, oa), gen_decls.render(prog, ob)


def typedef_of_blocklisted_crosses(prog, order_a, order_b):
    """True if a typedef or a variable declaration that names a block-listed
    type — or a type that embeds one by value, transitively — stands before that
    type's definition in one of the two orders and after it in the other (the
    trigger of the known finding C07-typedef-of-forward-declared-blocklisted-type:
    the type is then first met through a forward declaration)."""
    blocked = {prog.flags[i + 1] for i, f in enumerate(prog.flags[:-1]) if f == "--blocklist-type"}
    tainted = set(blocked)
    grew = True
    while grew:
        grew = False
        for e in prog.entities:
            if e.name not in tainted and (e.hard & tainted):
                tainted.add(e.name)
                grew = True

    def before(order, t, x):
        pos = {it: n for n, it in enumerate(order)}
        return pos.get(("def", t), -1) < pos.get(("def", x), 1 << 30)

    for e in prog.entities:
        if e.kind in ("typedef", "inst_typedef", "var"):
            for x in (e.soft | e.hard) & tainted:
                if before(order_a, e.name, x) != before(order_b, e.name, x):
                    return True
    return False


def diff_kind(d):
    """What differs between two inventories: only the derive lists (and the
    impl blocks that stand in for derives), or something else."""
    import re
    strip = lambda t: re.sub(r"# \[derive \([^)]*\)\] ", "", t)
    for x in d:
        if x["item"].startswith("impl "):
            continue
        a = sorted(strip(t) for t in (x["a"] or []))
        b = sorted(strip(t) for t in (x["b"] or []))
        if a != b:
            return "other"
    return "derives-only"


def run(tier, seed, only=None):
    out = Outcome("C07", tier, seed, "exploration")
    st = Stats()
    minimised = [0]
    n_self, bad_self = selfcheck(seed, 6 if tier == "quick" else 60, out)
    log(f"[C07] determinism self-check: {n_self} requests run three times (1, 1, 16 workers), {bad_self} differ")
    quick = tier == "quick"
    samples = []

    # ------------------------------------------------------------ regression replays
    rdir = os.path.join(os.path.dirname(os.path.dirname(os.path.abspath(__file__))), "regress", "C07")
    regress_n = 0
    for name in sorted(os.listdir(rdir)) if os.path.isdir(rdir) else []:
        with open(os.path.join(rdir, name)) as f:
            doc = json.load(f)
        ok, detail = replay(doc, forced=False)
        regress_n += 1
        if ok:
            out.violation({"class": "regression", "file": name, "was": doc.get("signature")},
                          dict(doc, regression_of=name))
    log(f"[C07] regression replays: {regress_n}")

    # ------------------------------------------------------------ corpus, O-ref
    jobs = corpus_jobs()
    if os.environ.get("BVSIM_C07_NO_CORPUS"):
        jobs = jobs[:3]
    log(f"[C07] corpus: {len(jobs)} headers; baseline with reference solver")
    base = run_requests([gen_req(j, fix_cfg(0, perturb=False)) for j in jobs], timeout=300, progress=200)
    usable = []
    skipped = {}
    for j, r in zip(jobs, base):
        if r.get("kind") != "ok":
            skipped[r.get("kind", "?")] = skipped.get(r.get("kind", "?"), 0) + 1
            continue
        st.absorb(r)
        usable.append((j, r))
        for p in solver_problems(r):
            sig = dict(p, workload=f"corpus:{j['id']}", engine="O-ref")
            out.violation(sig, {"engine": "c07", "kind": "corpus-ref", "job": j, "fix": fix_cfg(0, perturb=False),
                                "observed": p})
    log(f"[C07] corpus usable {len(usable)}, skipped {skipped}")
    skipped_list = [(j["id"], r.get("kind"), (r.get("err") or "")[:100]) for j, r in zip(jobs, base) if r.get("kind") != "ok"]
    log(f"[C07] skipped: {skipped_list}")

    # ------------------------------------------------------------ corpus, S-b
    rng = Rng.for_case(seed, "c07-sb", 0)
    if quick:
        subset = rng.sample(usable, max(1, len(usable) // 3))
        nseeds = 2
    else:
        subset = usable
        nseeds = 16
    reqs, meta = [], []
    for j, b in subset:
        for k in range(nseeds):
            s = Rng.for_case(seed, "c07-sb-" + j["id"], k).next()
            reqs.append(gen_req(j, fix_cfg(s)))
            meta.append((j, b, s))
    log(f"[C07] S-b perturbation runs: {len(reqs)}")
    res = run_requests(reqs, timeout=300, progress=500)
    for (j, b, s), r in zip(meta, res):
        if r.get("kind") != "ok":
            sig = {"class": "perturbed-run-failed", "workload": f"corpus:{j['id']}", "kind": r.get("kind"),
                   "err": (r.get("err") or "")[:200]}
            out.violation(sig, {"engine": "c07", "kind": "corpus-sb", "job": j, "fix": fix_cfg(s), "observed": r})
            continue
        st.absorb(r)
        if (r.get("fix") or {}).get("forced_mismatch"):
            out.harness_errors.append(f"forced mismatch in random mode?! {j['id']}")
        probs = solver_problems(r)
        if r["fp"] != b["fp"]:
            probs.append({"class": "bindings-differ-under-perturbation"})
        elif facts_vector(r) != facts_vector(b):
            # A fact that moved under a result-preserving perturbation but is
            # never looked up (e.g. sizedness of the stdint-named aliases that
            # Type::trace skips on purpose) is outside the property ("no fact
            # that the generated code depends on"): counted as a lead, the
            # consulted pairs are covered by O-ref and the bindings by O-perturb.
            st.fact_leads += 1
        for p in probs:
            sig = dict(p, workload=f"corpus:{j['id']}", engine="S-b")
            events = (r.get("fix") or {}).get("events", [])
            if minimised[0] < 4 and match_unknown(out, sig):
                minimised[0] += 1
                ms = make_scratch("c07-min")
                try:
                    events = minimise_events(j, events, p["class"], b["fp"], ms)
                finally:
                    remove_scratch(ms)
            out.violation(sig, {"engine": "c07", "kind": "corpus-sb", "job": j, "fix": fix_cfg(s),
                                "forced_events": events, "baseline_fp": b["fp"], "observed": p})
    if res:
        ev = (res[0].get("fix") or {}).get("events", [])[:6]
        samples.append({"kind": "S-b perturbation", "header": meta[0][0]["id"], "fix_seed": meta[0][2],
                        "first_events": ev})

    # ------------------------------------------------------------ S-c: arbitrary pop order (leads only, thorough)
    sc_leads = []
    if not quick:
        reqs, meta = [], []
        for j, b in usable:
            s = Rng.for_case(seed, "c07-sc-" + j["id"], 0).next()
            reqs.append(gen_req(j, {"seed": s, "reference": False, "random_pop": 300}))
            meta.append((j, b))
        log(f"[C07] S-c arbitrary pop order (leads only): {len(reqs)} runs")
        for (j, b), r in zip(meta, run_requests(reqs, timeout=300, progress=500)):
            if r.get("kind") == "ok" and r.get("fp") != b["fp"]:
                fa, fb = dict(facts_vector(r)), dict(facts_vector(b))
                sc_leads.append({"header": j["id"], "analyses": sorted(a for a in fa if fa[a] != fb.get(a))})

    # ------------------------------------------------------------ generated graphs, S-a
    scratch = make_scratch("c07")
    nprog = int(os.environ.get("BVSIM_C07_NPROG", 1000 if quick else 6000))
    max_orders = int(os.environ.get("BVSIM_C07_ORDERS", 6 if quick else 48))
    log(f"[C07] generated declaration graphs: {nprog} programs x <= {max_orders} orders")
    progs = []
    reqs, meta = [], []
    exhaustive_programs = 0
    for i in range(nprog):
        prng = Rng.for_case(seed, "c07-graph", i)
        # a fifth of the programs are small enough for all their orders to be enumerated
        small = prng.chance(200)
        prog = gen_decls.gen_program(prng, max_entities=(4 if small else (8 if quick else 12)))
        ords, exhaustive = gen_decls.orders(prog, prng, max_orders)
        exhaustive_programs += 1 if exhaustive else 0
        progs.append((prog, ords))
        for k, o in enumerate(ords):
            text = gen_decls.render(prog, o)
            job = write_header_job(scratch, f"g{i}.o{k}", gen_decls.header_name(prog), text, prog.flags,
                                   {"callbacks": True} if prog.callbacks else None)
            # every order also runs under its own S-b stream
            s = Rng.for_case(seed, f"c07-graph-{i}", k).next()
            cfg = fix_cfg(s, perturb=(k % 2 == 1))
            reqs.append(gen_req(job, cfg, inventory=True))
            meta.append((i, k, job, cfg))
    res = run_requests(reqs, timeout=300, progress=1000)
    by_prog = {}
    for (i, k, job, cfg), r in zip(meta, res):
        by_prog.setdefault(i, []).append((k, job, cfg, r))
    orders_rejected = 0
    failed_generations = {}
    programs_compared = 0
    for i, runs in sorted(by_prog.items()):
        ok = [(k, job, cfg, r) for (k, job, cfg, r) in runs if r.get("kind") == "ok"]
        for (k, job, cfg, r) in runs:
            if r.get("kind") == "err" and "ClangDiagnostic" in (r.get("err") or ""):
                orders_rejected += 1  # generator produced an order clang rejects: not bindgen's problem
            elif r.get("kind") != "ok":
                # A generation that panics or fails is C12's subject, not C07's
                # (e.g. the known --no-recursive-allowlist assertions): such an
                # order is left out of the comparison and counted.
                failed_generations[r.get("kind", "?")] = failed_generations.get(r.get("kind", "?"), 0) + 1
        for (k, job, cfg, r) in ok:
            st.absorb(r)
            for p in solver_problems(r):
                sig = dict(p, engine="O-ref/generated")
                sig.pop("item", None)
                events = (r.get("fix") or {}).get("events", [])
                if minimised[0] < 4 and match_unknown(out, sig):
                    minimised[0] += 1
                    ms = make_scratch("c07-min")
                    try:
                        events = minimise_events(job, events, p["class"], None, ms)
                    finally:
                        remove_scratch(ms)
                out.violation(sig, {"engine": "c07", "kind": "graph-ref", "job": job, "fix": cfg,
                                    "forced_events": events, "observed": p})
        if len(ok) < 2:
            continue
        programs_compared += 1
        k0, job0, cfg0, r0 = ok[0]
        for (k, job, cfg, r) in ok[1:]:
            if "inv" not in r or "inv" not in r0:
                out.harness_errors.append(f"inventory missing for g{i}: {r.get('inv_err') or r0.get('inv_err')}")
                continue
            d = inv_diff(r0["inv"], r["inv"])
            if d:
                first = d[0]
                blk_cb = bool(job.get("callbacks")) and "--blocklist-type" in job["flags"]
                crosses = blk_cb and typedef_of_blocklisted_crosses(progs[i][0], progs[i][1][k0], progs[i][1][k])
                dk = diff_kind(d)
                # The known finding's family: a block-listed type judged through the
                # implements-trait callback, where only derives differ or a typedef of the
                # block-listed type crosses its definition (see known_findings.json).
                family = blk_cb and (crosses or dk == "derives-only")
                sig = {"class": "order-dependent-bindings", "engine": "O-order",
                       "blocklist_callback_forward_declaration_family": family}
                if not family:
                    # anything else is identified more finely
                    sig.update({"item_kind": first["item"].split(" ")[0], "diff_kind": dk,
                                "blocklist_with_implements_trait_callback": blk_cb})
                doc = {"engine": "c07", "kind": "graph-order", "job_a": job0, "job_b": job,
                       "fix_a": cfg0, "fix_b": cfg, "diff": d[:6],
                       "observed": {"class": "order-dependent-bindings", "items": [x["item"] for x in d]}}
                if minimised[0] < 4 and match_unknown(out, sig):
                    minimised[0] += 1
                    ms = make_scratch("c07-min")
                    try:
                        m = minimise_program(progs[i][0], progs[i][1][k0], progs[i][1][k], job, ms)
                        if m is not None:
                            plain = fix_cfg(0, perturb=False)
                            doc.update({"original_job_a": job0, "original_job_b": job, "original_fix_a": cfg0,
                                        "original_fix_b": cfg, "fix_a": plain, "fix_b": plain,
                                        "job_a": dict(job0, inline=dict(job0["inline"], text=m[0])),
                                        "job_b": dict(job, inline=dict(job["inline"], text=m[1]))})
                    except Exception as e:  # the minimiser must never turn a finding into a crash
                        log(f"[C07] minimiser failed: {e}")
                    finally:
                        remove_scratch(ms)
                out.violation(sig, doc)
                break
    if progs:
        p0, o0 = progs[0]
        samples.append({"kind": "generated declaration graph", "flags": p0.flags,
                        "orders": [[f"{a}:{b}" for a, b in o] for o in o0[:3]],
                        "header_first_order": gen_decls.render(p0, o0[0])[:1200]})

    remove_scratch(scratch)
    hours = max(1e-9, (time.time() - out.t0) / 3600.0)
    out.coverage = {
        "evaluations": st.generations,
        "distinct_nontrivial": len(st.nontrivial_order_fps),
        "rule": "one evaluation = one full Builder::generate() of the real library under the fixpoint seam; "
                "distinct = distinct vectors of per-analysis visiting-order fingerprints (hash of the pop sequence of "
                "each of the up to 11 solver runs); non-trivial = at least one solver run re-queued a dependent "
                "(pushes > 0), i.e. the schedule could matter",
        "samples": samples,
        "exhaustive": False,
        "solver_runs": st.solver_runs,
        "solver_runs_compared_with_reference": st.reference_runs,
        "facts_compared": st.facts,
        "lookups_probed": st.consults,
        "unconsulted_reference_differences": st.unconsulted_diffs,
        "unconsulted_facts_moved_by_perturbation_runs": st.fact_leads,
        "s_c_arbitrary_pop_order_leads": {"count": len(sc_leads), "first": sc_leads[:10],
                                          "note": "never a violation: CannotDerive / UsedTemplateParameters rely on "
                                                  "successors-first popping for non-allow-listed successors"},
        "perturbation_events_fired": st.events,
        "distinct_visiting_order_vectors": len(st.order_fps),
        "scheduler_steps_simulated": st.pops + st.ref_evals,
        "max_changes_per_node_over_lattice_height": round(st.max_changes_ratio, 3),
        "regression_replays": regress_n,
        "determinism_selfcheck": {"requests_run_twice": n_self, "differing": bad_self},
        "corpus_headers": len(jobs),
        "corpus_headers_usable": len(usable),
        "corpus_headers_skipped": skipped,
        "generated_programs": nprog,
        "generated_programs_compared_across_orders": programs_compared,
        "generated_programs_with_all_orders_enumerated": exhaustive_programs,
        "generated_orders_rejected_by_clang": orders_rejected,
        "generated_orders_whose_generation_failed": failed_generations,
        "runs_per_hour": int(st.generations / hours),
        "simulated_time": "no clock in this system; simulated time is scheduler steps (see scheduler_steps_simulated)",
        "real_vs_stub": {"bindgen library": "real (working tree, --cfg bindgen_verif)", "libclang 14": "real",
                         "work-list policy": "real loop, choices owned by the simulator",
                         "reference solver": "model (round-robin sweeps over the evaluated node set)"},
    }
    out.assumptions = [
        "rules are compared on the node set production evaluated; a node production never evaluates is outside both",
        "S-b perturbations (stutter, duplicate, reorder, de-duplicate) preserve the least fixed point of a monotone, "
        "inflationary rule set with complete dependency edges",
        "generated declaration graphs avoid anonymous top-level types so inventories can be compared by name",
    ]
    return out.finish()


# ---------------------------------------------------------------- replay

def replay(doc, forced=True):
    """Re-execute a C07 replay file by forcing the recorded decisions; returns
    (reproduced: bool, detail). With forced=False (regression inputs, which run
    against a tree that has changed since they were recorded, so decision point
    numbers no longer line up) the recorded perturbation seed is used instead."""
    scratch = make_scratch("c07-replay")
    try:
        return _replay(doc, scratch, forced)
    finally:
        remove_scratch(scratch)


def _replay(doc, scratch, forced):
    from common import materialise
    kind = doc.get("kind")
    if kind in ("corpus-ref", "corpus-sb", "graph-ref", "graph"):
        cfg = dict(doc["fix"])
        if forced and doc.get("forced_events") is not None and kind != "corpus-ref":
            cfg = fix_cfg(0, forced=doc["forced_events"])
        r = run_requests([gen_req(materialise(doc["job"], scratch), cfg)], workers=1)[0]
        if (r.get("fix") or {}).get("forced_mismatch"):
            raise HarnessError("replay diverged: " + r["fix"]["forced_mismatch"])
        if kind == "graph":
            return r.get("kind") == doc["observed"].get("kind"), r
        probs = solver_problems(r)
        if doc.get("baseline_fp") and r.get("fp") != doc["baseline_fp"]:
            probs.append({"class": "bindings-differ-under-perturbation"})
        want = doc["observed"]["class"]
        return any(p["class"] == want for p in probs) or (
            want == "facts-differ-under-perturbation" and bool(probs)), probs
    if kind == "graph-order":
        ja = materialise(dict(doc["job_a"], id="a"), scratch)
        jb = materialise(dict(doc["job_b"], id="b"), scratch)
        ra, rb = run_requests([gen_req(ja, doc["fix_a"], inventory=True),
                               gen_req(jb, doc["fix_b"], inventory=True)], workers=2)
        if ra.get("kind") != "ok" or rb.get("kind") != "ok":
            return False, [ra.get("kind"), rb.get("kind")]
        d = inv_diff(ra["inv"], rb["inv"])
        return bool(d), d[:3]
    raise HarnessError(f"unknown C07 replay kind {kind}")
