"""C12 — generation always ends with bindings or an error value, never a panic.
fsfault-sim (DESIGN.md section 5.1): one child process per scenario, file
syscalls on the input path failed by an LD_PRELOAD shim according to a fault
plan, static file-system states, deterministic step budgets."""
import concurrent.futures
import json
import os
import re
import shutil
import subprocess
import time

from common import (BVSIM, HarnessError, NCPU, Outcome, Rng, SHIM, corpus_jobs, log, run_requests)

NOBODY = 65534
BASE_FLAGS = ["--formatter=none", "--disable-header-comment"]

# ---------------------------------------------------------------- sandboxes

SETS = {
    "c-basic": {
        "main.h": '#include "inc_a.h"\n#if 0\n#include "inactive.h"\n#endif\n#define MAIN_K 7\n'
                  'struct M { struct A a; int x[MAIN_K]; struct M* next; };\nint use_m(struct M* m, other_t o);\n',
        "inc_a.h": '#include "inc_b.h"\nstruct A { struct B b; double d; };\n',
        "inc_b.h": 'struct B { int v; char name[12]; };\nenum Color { RED, GREEN = 5 };\n',
        "inactive.h": 'struct Never { int z; };\n',
        "other.h": 'typedef unsigned long other_t;\n',
        "flags": [],
    },
    "cpp-templates": {
        "main.h": '#include "inc_a.h"\n#if 0\n#include "inactive.h"\n#endif\n'
                  'template <typename T> struct Box { T v; Base* owner; };\n'
                  'struct D : public Base { Box<Leaf> b; other_t o; virtual void f(); };\n',
        "inc_a.h": '#include "inc_b.h"\nstruct Base { virtual ~Base(); Leaf l; };\n',
        # > 16 KiB: libLLVM maps files of four pages or more instead of reading them
        "inc_b.h": 'struct Leaf { float f; int arr[40]; };\n' + "".join(
            f"/* padding line {i:05d} so that this header is large enough to be memory-mapped by libLLVM */\n" for i in range(400)),
        "inactive.h": 'struct Never { int z; };\n',
        "other.h": 'typedef unsigned long other_t;\n',
        "flags": ["--with-derive-hash", "--with-derive-partialeq", "--with-derive-eq", "--", "-x", "c++", "-std=c++14"],
    },
    "c-macros-depfile": {
        "main.h": '#include "inc_a.h"\n#if 0\n#include "inactive.h"\n#endif\n#define VERSION "1.2"\n#define LIMIT (1 << 4)\n'
                  'union U { struct A a; long l; };\nextern other_t counter;\nstatic inline int twice(int x) { return 2 * x; }\n',
        "inc_a.h": '#include "inc_b.h"\nstruct A { struct B b; unsigned bits : 3; unsigned more : 5; };\n',
        "inc_b.h": 'struct B { void (*cb)(int, struct B*); };\n',
        "inactive.h": 'struct Never { int z; };\n',
        "other.h": 'typedef unsigned long other_t;\n',
        "flags": ["--generate-inline-functions", "--no-layout-tests"],
    },
}

SETS["c-system-includes"] = {
    "main.h": '#include <stddef.h>\n#include <stdint.h>\n#include "inc_a.h"\n'
              'struct Sys { size_t n; uint32_t w; struct A a; other_t o; };\nptrdiff_t diff(const struct Sys*, const struct Sys*);\n',
    "inc_a.h": '#include <stdint.h>\nstruct A { int64_t big; uint8_t small[3]; };\n',
    "inc_b.h": 'struct Unused { int u; };\n',
    "inactive.h": 'struct Never { int z; };\n',
    "other.h": 'typedef unsigned long other_t;\n',
    "flags": [],
    "paths": ["main.h", "other.h", "inc_a.h", "stddef.h", "stdint.h"],
}

PATH_CLASSES = ["main.h", "other.h", "inc_a.h", "inc_b.h", "inactive.h"]
OPS = ["open", "stat", "read", "mmap", "access"]
ERRNOS = ["ENOENT", "EACCES", "EISDIR", "ENOTDIR", "ELOOP", "ENAMETOOLONG", "EIO", "EMFILE", "ENOMEM"]


def make_set(root, name):
    d = os.path.join(root, name)
    os.makedirs(d, exist_ok=True)
    spec = SETS[name]
    for fn, text in spec.items():
        if fn in ("flags", "paths"):
            continue
        with open(os.path.join(d, fn), "w") as f:
            f.write(text)
    os.chmod(d, 0o755)
    return d


def job_for(d, name, header="main.h"):
    spec = SETS[name]
    flags = list(BASE_FLAGS) + list(spec["flags"])
    if "--" not in flags:
        flags.append("--")
    flags += ["-include", os.path.join(d, "other.h")]
    return {"id": name, "header": os.path.join(d, header), "flags": flags}


# ---------------------------------------------------------------- child processes

def run_child(req, plan_lines, workdir, tag, timeout=120, uid=None, seed_env=None, stdin_text=None):
    """One scenario = one process. Returns (observation, fired) where fired is
    the list of faults the shim actually injected."""
    reqf = os.path.join(workdir, f"{tag}.req.json")
    planf = os.path.join(workdir, f"{tag}.plan")
    logf = os.path.join(workdir, f"{tag}.log")
    with open(reqf, "w") as f:
        json.dump(req, f)
    with open(planf, "w") as f:
        f.write("\n".join(plan_lines) + ("\n" if plan_lines else ""))
    for p in (reqf, planf):
        os.chmod(p, 0o644)
    if os.path.exists(logf):
        os.remove(logf)
    env = {"PATH": os.environ.get("PATH", "/usr/bin:/bin"), "LD_PRELOAD": SHIM, "BVSIM_FS_PLAN": planf,
           "BVSIM_FS_LOG": logf, "RUST_BACKTRACE": "0", "HOME": workdir, "TMPDIR": workdir}
    if seed_env:
        env.update(seed_env)
    cmd = [BVSIM, "one", reqf]
    if uid is not None:
        cmd = ["setpriv", f"--reuid={uid}", f"--regid={uid}", "--clear-groups"] + cmd
    t0 = time.time()
    try:
        p = subprocess.run(cmd, env=env, cwd=workdir, stdout=subprocess.PIPE, stderr=subprocess.PIPE, timeout=timeout,
                           input=(stdin_text.encode() if stdin_text is not None else None),
                           stdin=(None if stdin_text is not None else subprocess.DEVNULL))
        out = p.stdout.decode("utf-8", "replace").strip().splitlines()
        obs = None
        for line in reversed(out):
            try:
                obs = json.loads(line)
                break
            except json.JSONDecodeError:
                continue
        if obs is None:
            if p.returncode < 0:
                obs = {"kind": "crash", "signal": -p.returncode}
            else:
                obs = {"kind": "crash", "status": p.returncode,
                       "stderr": p.stderr.decode("utf-8", "replace")[-400:]}
    except subprocess.TimeoutExpired:
        obs = {"kind": "timeout", "after_s": timeout}
    obs["wall_ms"] = int((time.time() - t0) * 1000)
    fired = []
    if os.path.exists(logf):
        with open(logf) as f:
            fired = [l.split() for l in f.read().splitlines() if l.strip()]
    for p in (reqf, planf, logf):
        try:
            os.remove(p)
        except OSError:
            pass
    return obs, fired


def run_children(scenarios, workdir, workers=None):
    """scenarios: list of dicts with keys req, plan, tag, uid. Results in order."""
    workers = workers or NCPU
    with concurrent.futures.ThreadPoolExecutor(max_workers=workers) as ex:
        futs = [ex.submit(run_child, s["req"], s.get("plan", []), workdir, s["tag"], s.get("timeout", 120),
                          s.get("uid"), None, s.get("stdin_text")) for s in scenarios]
        return [f.result() for f in futs]


def panic_site(obs):
    err = obs.get("err") or ""
    head = err.split(": ", 1)
    site = head[0].replace("/repo/", "")
    msg = (head[1] if len(head) > 1 else "").split("\n")[0][:80]
    return site, msg


def classify(obs, fired, ref, expect=None):
    """Returns None if the outcome is acceptable, else a violation dict.
    expect: optional specific error variant name the property demands."""
    k = obs.get("kind")
    if k == "panic":
        site, msg = panic_site(obs)
        if "BINDGEN_VERIF_STEP_BUDGET_EXCEEDED" in (obs.get("err") or ""):
            return {"class": "non-termination", "site": site, "message": msg}
        return {"class": "panic", "site": site.rsplit(":", 1)[0], "message": msg}
    if k == "crash":
        return {"class": "crash", "signal": obs.get("signal"), "status": obs.get("status")}
    if k == "timeout":
        return {"class": "timeout"}
    if k == "err":
        if expect is not None:
            variant = (obs.get("err") or "").split("(")[0]
            if expect == "ANY_ERR":
                return None
            if variant != expect:
                return {"class": "wrong-error", "expected": expect, "got": variant}
            return None
        if not fired and ref is not None and ref.get("kind") == "ok":
            return {"class": "spurious-error", "error": (obs.get("err") or "").split("(")[0]}
        return None
    if k == "ok":
        if expect is not None and expect != "OK":
            return {"class": "bindings-despite-bad-input", "expected": expect}
        if ref is not None and ref.get("kind") == "ok" and obs.get("fp") != ref.get("fp"):
            return {"class": "bindings-changed-by-fault"}
        return None
    return {"class": "unknown-outcome", "kind": k}


# ---------------------------------------------------------------- plans

def single_fault_plans(quick, paths=None):
    plans = []
    nths = (1, 2) if quick else (1, 2, 3)
    for pc in (paths or PATH_CLASSES):
        for op in OPS:
            for nth in nths:
                if op in ("open", "stat", "access"):
                    acts = ERRNOS if not quick else ["ENOENT", "EACCES", "EISDIR", "EIO", "EMFILE", "ELOOP"]
                    acts = acts + (["eintr1"] if op == "open" else [])
                elif op == "read":
                    acts = ["EIO", "eintr1", "short", "EISDIR"] + ([] if quick else ["ENOMEM", "EACCES"])
                else:
                    acts = ["ENOMEM", "EACCES", "ENODEV"] if not quick else ["ENOMEM", "ENODEV"]
                for a in acts:
                    plans.append([f"{pc} {op} {nth} {a}"])
    return plans


def pair_plans(rng, n, paths=None):
    singles = [p[0] for p in single_fault_plans(False, paths)]
    return [[rng.pick(singles), rng.pick(singles)] for _ in range(n)]


# ---------------------------------------------------------------- static states

def static_states(root):
    """File-system states that need no shim. Each: (tag, header path, expected
    variant, uid)."""
    d = os.path.join(root, "static")
    os.makedirs(d, exist_ok=True)
    os.chmod(d, 0o755)
    good = os.path.join(d, "good.h")
    with open(good, "w") as f:
        f.write("struct G { int g; };\n")
    os.chmod(good, 0o644)
    out = [("missing", os.path.join(d, "nope.h"), "NotExist", None),
           ("missing-dir-component", os.path.join(d, "nodir", "x.h"), "NotExist", None),
           ("directory", d, "FolderAsHeader", None)]
    os.makedirs(os.path.join(d, "adir.h"), exist_ok=True)
    out.append(("directory-named-like-header", os.path.join(d, "adir.h"), "FolderAsHeader", None))
    def link(name, target):
        p = os.path.join(d, name)
        if os.path.lexists(p):
            os.remove(p)
        os.symlink(target, p)
        return p
    out.append(("symlink-to-file", link("l_file.h", good), "OK", None))
    out.append(("symlink-to-dir", link("l_dir.h", d), "FolderAsHeader", None))
    out.append(("dangling-symlink", link("l_dangling.h", os.path.join(d, "gone.h")), "NotExist", None))
    out.append(("symlink-loop", link("l_loop.h", os.path.join(d, "l_loop.h")), "ANY_ERR", None))
    empty = os.path.join(d, "empty.h")
    open(empty, "w").close()
    os.chmod(empty, 0o644)
    out.append(("empty-file", empty, "OK", None))
    # a path that cannot name an existing file is a missing path
    out.append(("file-as-dir-component", os.path.join(good, "x.h"), "NotExist", None))
    out.append(("name-too-long", os.path.join(d, "n" * 300 + ".h"), "NotExist", None))
    # permission states, run as an unprivileged user (root ignores mode bits)
    for mode, name in ((0o000, "mode000"), (0o200, "mode200"), (0o040, "mode040"), (0o004, "mode004-other-uid"),
                       (0o044, "mode044"), (0o100, "mode100")):
        p = os.path.join(d, name + ".h")
        with open(p, "w") as f:
            f.write("struct P { int p; };\n")
        os.chown(p, NOBODY, NOBODY)
        os.chmod(p, mode)
        out.append((name, p, "InsufficientPermissions", NOBODY))
    p = os.path.join(d, "mode004-root-owned.h")
    with open(p, "w") as f:
        f.write("struct P { int p; };\n")
    os.chmod(p, 0o004)
    out.append(("mode004-root-owned-readable-by-others", p, "OK", NOBODY))
    p = os.path.join(d, "mode640-root-owned.h")
    with open(p, "w") as f:
        f.write("struct P { int p; };\n")
    os.chmod(p, 0o640)
    out.append(("mode640-root-owned", p, "InsufficientPermissions", NOBODY))
    # unreadable include (not the main header): clang must diagnose it
    inc = os.path.join(d, "secret_inc.h")
    with open(inc, "w") as f:
        f.write("struct S { int s; };\n")
    os.chown(inc, NOBODY, NOBODY)
    os.chmod(inc, 0o000)
    user = os.path.join(d, "uses_secret.h")
    with open(user, "w") as f:
        f.write('#include "secret_inc.h"\nstruct U { struct S s; };\n')
    os.chmod(user, 0o644)
    out.append(("unreadable-include", user, "ClangDiagnostic", NOBODY))
    searchdir = os.path.join(d, "noexec_dir")
    os.makedirs(searchdir, exist_ok=True)
    hidden = os.path.join(searchdir, "h.h")
    with open(hidden, "w") as f:
        f.write("struct H { int h; };\n")
    os.chown(searchdir, NOBODY, NOBODY)
    os.chmod(searchdir, 0o600)
    out.append(("header-in-unsearchable-dir", hidden, "ANY_ERR", NOBODY))
    return out


def multi_header_states(root):
    """Several `.header()` calls: only the last one has to exist as a path; the
    others are handed to clang as `-include <name>` and may be found through
    the include search path. All of these are inputs clang accepts."""
    d = os.path.join(root, "multi")
    os.makedirs(os.path.join(d, "include"), exist_ok=True)
    with open(os.path.join(d, "include", "board_config.h"), "w") as f:
        f.write("#define BOARD_PINS 4\ntypedef unsigned pin_t;\n")
    with open(os.path.join(d, "api.h"), "w") as f:
        f.write("struct Board { pin_t pins[BOARD_PINS]; };\n")
    with open(os.path.join(d, "first.h"), "w") as f:
        f.write("typedef long first_t;\n")
    with open(os.path.join(d, "second.h"), "w") as f:
        f.write("struct Second { first_t f; };\n")
    inc = ["--", "-I" + os.path.join(d, "include")]
    return [("non-last-header-via-include-path", ["board_config.h", os.path.join(d, "api.h")], inc, "OK"),
            ("two-headers-by-path", [os.path.join(d, "first.h"), os.path.join(d, "second.h")], [], "OK"),
            ("three-headers", [os.path.join(d, "first.h"), "board_config.h", os.path.join(d, "api.h")], inc, "OK"),
            ("non-last-header-missing-everywhere", ["nowhere_to_be_found.h", os.path.join(d, "api.h")], inc, "ClangDiagnostic"),
            ("last-header-missing", [os.path.join(d, "first.h"), os.path.join(d, "gone.h")], [], "NotExist")]


def output_path_states(root):
    """Output files that cannot be written: generation must still end (with
    bindings and a warning, or an error value) — never a panic or a hang."""
    d = os.path.join(root, "outputs")
    os.makedirs(d, exist_ok=True)
    hdr = os.path.join(d, "o.h")
    with open(hdr, "w") as f:
        f.write('#include "o_inc.h"\nstatic inline int sq(int x) { return x * x; }\nstruct O { inc_t i; };\n')
    with open(os.path.join(d, "o_inc.h"), "w") as f:
        f.write("typedef int inc_t;\n")
    dangling = os.path.join(d, "dangling.d")
    if os.path.lexists(dangling):
        os.remove(dangling)
    os.symlink(os.path.join(d, "no", "such", "dir", "x.d"), dangling)
    adir = os.path.join(d, "is_a_dir")
    os.makedirs(adir, exist_ok=True)
    bad = {"missing-dir": os.path.join(d, "nodir", "deeper", "out"), "dangling-symlink": dangling, "directory": adir,
           "under-a-file": os.path.join(hdr, "out"), "empty": ""}
    states = []
    for name, path in bad.items():
        states.append((f"depfile-{name}", hdr, ["--depfile", path, "--output", os.path.join(d, "ok.rs")]))
        if path:
            states.append((f"wrap-static-fns-{name}", hdr, ["--experimental", "--wrap-static-fns", "--wrap-static-fns-path", path]))
            states.append((f"graphviz-{name}", hdr, ["--emit-ir-graphviz", path]))
    return states


MEM_TEXT = "#define WORDS (sizeof(long) / sizeof(int))\n#define PLAIN 7\nstruct Mem { int m[PLAIN]; };\nstatic inline int dbl(int x) { return 2 * x; }\n"


def memory_input_states(root):
    """Inputs that are not (only) files on disk: `header_contents`, mixed with
    on-disk headers, and a header read from a pipe. All are inputs clang
    accepts; each must give bindings."""
    d = os.path.join(root, "mem")
    os.makedirs(d, exist_ok=True)
    disk = os.path.join(d, "disk.h")
    # in-memory contents are handed to clang as `-include`, i.e. they precede the on-disk main header
    with open(disk, "w") as f:
        f.write("struct OnDisk { struct Mem m; int tail; };\n")
    base = list(BASE_FLAGS)
    states = []
    for name, flags in (("plain", []), ("macro-fallback", ["--clang-macro-fallback", "--clang-macro-fallback-build-dir", d]),
                        ("inline-fns", ["--generate-inline-functions"])):
        states.append((f"contents-only-{name}", {"contents": [["mem.h", MEM_TEXT]], "flags": base + flags}, None))
        states.append((f"contents-two-{name}", {"contents": [["a.h", "typedef int a_t;\n"], ["mem.h", MEM_TEXT]], "flags": base + flags}, None))
        states.append((f"contents-then-disk-{name}", {"headers": [disk], "contents": [["mem.h", MEM_TEXT]], "flags": base + flags}, None))
    states.append(("stdin-pipe", {"header": "/dev/stdin", "flags": base + ["--", "-x", "c"]}, "int from_pipe(int x);\nstruct Piped { int p; };\n"))
    states.append(("stdin-pipe-large", {"header": "/dev/stdin", "flags": base + ["--", "-x", "c"]},
                   "".join(f"struct P{i} {{ int v{i}; }};\n" for i in range(3000))))
    return states


def config_states():
    """Unsupported edition/target pairs must yield their error value."""
    return [("edition2024-on-1.70", ["--rust-target", "1.70", "--rust-edition", "2024"], "UnsupportedEdition"),
            ("edition2021-on-1.77", ["--rust-target", "1.77", "--rust-edition", "2021"], "OK"),
            ("edition2024-on-1.85", ["--rust-target", "1.85", "--rust-edition", "2024"], "OK")]


# ---------------------------------------------------------------- the check

def run(tier, seed):
    out = Outcome("C12", tier, seed, "fault_enumeration")
    quick = tier == "quick"
    if shutil.which("setpriv") is None:
        raise HarnessError("setpriv not available")
    root = "/var/tmp/bvsim-c12-%d" % os.getpid()
    shutil.rmtree(root, ignore_errors=True)
    os.makedirs(root)
    os.chmod(root, 0o755)
    work = os.path.join(root, "work")
    os.makedirs(work)
    os.chmod(work, 0o777)
    fired_kinds = {}
    selfcheck = {"scenarios_run_twice": 0, "differing": 0}
    redirected = [0]
    outcomes = {}
    trivial = 0
    scen_total = 0
    samples = []
    distinct = set()
    max_steps_ratio = 0

    def record(sig, doc):
        out.violation(sig, dict(doc, engine="c12"))

    try:
        # ---------------------------------------------------- fault plans over the sandbox sets
        for sname in SETS:
            d = make_set(root, sname)
            job = job_for(d, sname)
            req = {"op": "gen", "job": job, "arm_steps": True}
            ref, _ = run_child(req, [], work, f"{sname}-ref")
            if ref.get("kind") != "ok":
                out.harness_errors.append(f"fault-free reference of {sname} is not ok: {ref}")
                continue
            plans = single_fault_plans(quick, SETS[sname].get("paths"))
            prng = Rng.for_case(seed, "c12-pairs", sname)
            plans += pair_plans(prng, 60 if quick else 2500, SETS[sname].get("paths"))
            scen = [{"req": req, "plan": p, "tag": f"{sname}-{i}"} for i, p in enumerate(plans)]
            res = run_children(scen, work)
            # determinism self-check: a slice of the scenarios again, sequentially
            again = run_children([dict(s, tag=s["tag"] + "-again") for s in scen[:12]], work, workers=1)
            same = lambda a, b: (a[0].get("kind"), a[0].get("fp"), a[0].get("err"), a[1]) == \
                                (b[0].get("kind"), b[0].get("fp"), b[0].get("err"), b[1])
            nbad = sum(1 for a, b in zip(res, again) if not same(a, b))
            selfcheck["scenarios_run_twice"] += len(again)
            selfcheck["differing"] += nbad
            if nbad:
                out.harness_errors.append(f"determinism self-check: {nbad} fault scenarios of {sname} differ when run again")
            log(f"[C12] {sname}: {len(scen)} fault scenarios")
            for p, (obs, fired) in zip(plans, res):
                scen_total += 1
                if not fired:
                    trivial += 1
                for f in fired:
                    key = f"{f[1]}:{f[3]}"
                    fired_kinds[key] = fired_kinds.get(key, 0) + 1
                    distinct.add((sname, f[1], os.path.basename(f[2]), f[3], obs.get("kind")))
                outcomes[obs.get("kind")] = outcomes.get(obs.get("kind"), 0) + 1
                max_steps_ratio = max(max_steps_ratio, obs.get("steps_ratio", 0))
                v = classify(obs, fired, ref)
                outside = [f for f in fired if not f[2].startswith(root)]
                if v and v["class"] == "bindings-changed-by-fault" and outside:
                    # A failed probe of a *system* header redirects clang's include search
                    # (#include_next falls through to the next directory): a legal, different
                    # preprocessing result, not bindgen changing bindings behind a fault. The
                    # bindings must then equal those of a run with only the system-header
                    # fault(s) applied; anything the sandbox faults add on top is still judged.
                    only_sys = [p[int(f[0])] for f in outside]
                    ref2, _ = run_child(req, only_sys, work, f"{sname}-sysref")
                    if ref2.get("kind") == "ok" and ref2.get("fp") == obs.get("fp"):
                        redirected[0] += 1
                        v = None
                if v:
                    ops = sorted({f"{f[1]}:{os.path.basename(f[2])}" for f in fired})
                    sig = dict(v, fault=ops[0] if ops else "none", tier="plan")
                    sig.pop("message", None)
                    record(sig, {"kind": "plan", "set": sname, "plan": p, "observed": obs, "fired": fired})
            if len(samples) < 3:
                samples.append({"set": sname, "plan": plans[7], "outcome": res[7][0].get("kind"),
                                "fired": res[7][1]})

        # ---------------------------------------------------- static file-system states
        states = static_states(root)
        scen = []
        for tag, path, expect, uid in states:
            job = {"id": tag, "header": path, "flags": list(BASE_FLAGS)}
            scen.append({"req": {"op": "gen", "job": job, "arm_steps": True}, "tag": f"static-{tag}", "uid": uid})
        res = run_children(scen, work)
        log(f"[C12] static file-system states: {len(scen)}")
        for (tag, path, expect, uid), (obs, fired) in zip(states, res):
            scen_total += 1
            distinct.add(("static", tag, obs.get("kind")))
            outcomes[obs.get("kind")] = outcomes.get(obs.get("kind"), 0) + 1
            v = classify(obs, ["static"], None, expect=expect)
            if v:
                sig = dict(v, state=tag, tier="static")
                sig.pop("message", None)
                record(sig, {"kind": "static", "state": tag, "expect": expect, "uid": uid, "observed": obs})
        samples.append({"static_state": states[5][0], "expected": states[5][2], "outcome": res[5][0].get("kind")})

        # ---------------------------------------------------- configurations with their own error value
        d = make_set(root, "c-basic")
        cfgs = config_states()
        scen = []
        for tag, flags, expect in cfgs:
            job = {"id": tag, "header": os.path.join(d, "inc_b.h"), "flags": list(BASE_FLAGS) + flags}
            scen.append({"req": {"op": "gen", "job": job, "arm_steps": True}, "tag": f"cfg-{tag}"})
        res = run_children(scen, work)
        for (tag, flags, expect), (obs, fired) in zip(cfgs, res):
            scen_total += 1
            distinct.add(("config", tag, obs.get("kind")))
            v = classify(obs, ["cfg"], None, expect=expect)
            if v:
                record(dict(v, state=tag, tier="config"), {"kind": "config", "flags": flags, "expect": expect,
                                                          "observed": obs})

        # ---------------------------------------------------- in-memory and stream inputs
        ms = memory_input_states(root)
        scen = [{"req": {"op": "gen", "job": dict(spec, id=tag), "arm_steps": True, "want_text": tag.startswith("stdin")},
                 "tag": f"mem-{tag}", "stdin_text": stdin, "timeout": 60} for tag, spec, stdin in ms]
        res = run_children(scen, work)
        for (tag, spec, stdin), (obs, fired) in zip(ms, res):
            scen_total += 1
            distinct.add(("memory-input", tag, obs.get("kind")))
            outcomes[obs.get("kind")] = outcomes.get(obs.get("kind"), 0) + 1
            v = classify(obs, ["mem"], None, expect="OK")
            if not v and stdin is not None and ("Piped" if "large" not in tag else "P2999") not in (obs.get("text") or ""):
                v = {"class": "bindings-incomplete"}
            if v:
                sig = dict(v, state=tag, tier="memory-input")
                sig.pop("message", None)
                obs.pop("text", None)
                record(sig, {"kind": "memory", "state": tag, "observed": obs})

        # ---------------------------------------------------- output paths that cannot be written
        ops = output_path_states(root)
        scen = [{"req": {"op": "gen", "job": {"id": tag, "header": h, "flags": list(BASE_FLAGS) + fl}, "arm_steps": True},
                 "tag": f"out-{tag}", "timeout": 40} for tag, h, fl in ops]
        res = run_children(scen, work)
        for (tag, h, fl), (obs, fired) in zip(ops, res):
            scen_total += 1
            distinct.add(("output-path", tag, obs.get("kind")))
            outcomes[obs.get("kind")] = outcomes.get(obs.get("kind"), 0) + 1
            v = classify(obs, ["output"], None, expect=None)
            if v:
                sig = dict(v, state=tag, tier="output-path")
                sig.pop("message", None)
                record(sig, {"kind": "output", "state": tag, "observed": obs})

        # ---------------------------------------------------- several input headers (library use)
        mh = multi_header_states(root)
        scen = [{"req": {"op": "gen", "job": {"id": tag, "headers": hs, "flags": list(BASE_FLAGS) + fl}, "arm_steps": True},
                 "tag": f"multi-{tag}"} for tag, hs, fl, expect in mh]
        res = run_children(scen, work)
        for (tag, hs, fl, expect), (obs, fired) in zip(mh, res):
            scen_total += 1
            distinct.add(("multi-header", tag, obs.get("kind")))
            v = classify(obs, ["multi"], None, expect=expect)
            if v:
                sig = dict(v, state=tag, tier="multi-header")
                sig.pop("message", None)
                record(sig, {"kind": "multi", "state": tag, "expect": expect, "observed": obs})

        # ---------------------------------------------------- corpus under step budgets (liveness)
        jobs = corpus_jobs()
        if quick:
            jobs = Rng.for_case(seed, "c12-corpus", 0).sample(jobs, 150)
        log(f"[C12] corpus under step budgets: {len(jobs)} headers")
        res = run_requests([{"op": "gen", "job": j, "arm_steps": True, "fix": {"seed": 0, "reference": False}}
                            for j in jobs], timeout=300)
        for j, r in zip(jobs, res):
            scen_total += 1
            outcomes[r.get("kind")] = outcomes.get(r.get("kind"), 0) + 1
            max_steps_ratio = max(max_steps_ratio, r.get("steps_ratio", 0))
            distinct.add(("corpus", j["id"]))
            if r.get("kind") == "panic" and "BINDGEN_VERIF_STEP_BUDGET_EXCEEDED" in (r.get("err") or ""):
                record({"class": "non-termination", "workload": j["id"]}, {"kind": "corpus", "job": j, "observed": r})
            elif r.get("kind") in ("crash", "timeout"):
                record({"class": r["kind"], "workload": j["id"], "tier": "corpus"},
                       {"kind": "corpus", "job": j, "observed": r})
            else:
                for run_ in (r.get("fix") or {}).get("runs", []):
                    if run_.get("oscillation") is not None:
                        record({"class": "non-termination", "analysis": run_["analysis"], "workload": j["id"]},
                               {"kind": "corpus", "job": j, "observed": {"kind": "oscillation", "run": run_}})

        # ---------------------------------------------------- deep nesting up to depth 200
        depths = (10, 40, 100, 200) if quick else (10, 33, 50, 100, 150, 200)
        dreqs = deep_requests(root, depths)
        log(f"[C12] deep nesting: {len(dreqs)} generated headers up to depth {max(depths)}")
        dres = run_requests(dreqs, timeout=600)
        for rq, r in zip(dreqs, dres):
            scen_total += 1
            j = rq["job"]
            k = r.get("kind")
            outcomes[k] = outcomes.get(k, 0) + 1
            distinct.add(("deep", j["id"]))
            max_steps_ratio = max(max_steps_ratio, r.get("steps_ratio", 0))
            kind_, depth_ = j["id"].split(":")[1:3]
            if k == "panic":
                site, msg = panic_site(r)
                cls = "non-termination" if "BINDGEN_VERIF_STEP_BUDGET_EXCEEDED" in (r.get("err") or "") else "panic"
                record({"class": cls, "tier": "deep-nesting", "shape": kind_, "site": site.rsplit(":", 1)[0]},
                       {"kind": "corpus", "job": dict(j, inline_source=deep_source(kind_, int(depth_))[0][:4000]), "observed": r})
            elif k in ("crash", "timeout"):
                record({"class": k, "tier": "deep-nesting", "shape": kind_, "signal": r.get("status")},
                       {"kind": "corpus", "job": j, "observed": r})
            elif k == "err":
                record({"class": "accepted-header-rejected", "tier": "deep-nesting", "shape": kind_},
                       {"kind": "corpus", "job": j, "observed": r})
            else:
                for run_ in (r.get("fix") or {}).get("runs", []):
                    if run_.get("oscillation") is not None:
                        record({"class": "non-termination", "tier": "deep-nesting", "shape": kind_, "analysis": run_["analysis"]},
                               {"kind": "corpus", "job": j, "observed": {"kind": "oscillation", "run": run_}})

        # ---------------------------------------------------- headers clang rejects must yield ClangDiagnostic
        rreqs = rejected_requests(root)
        rres = run_requests([r for r, _ in rreqs], timeout=300)
        for (rq, clang_rejects), r in zip(rreqs, rres):
            scen_total += 1
            j = rq["job"]
            distinct.add(("rejected", j["id"]))
            outcomes[r.get("kind")] = outcomes.get(r.get("kind"), 0) + 1
            if not clang_rejects:
                out.harness_errors.append(f"clang accepts {j['id']}, which is meant to be a rejected header")
                continue
            v = classify(r, ["rejected"], None, expect="ClangDiagnostic")
            if v:
                sig = dict(v, tier="rejected-header", header=j["id"].split(":")[1])
                sig.pop("message", None)
                record(sig, {"kind": "corpus", "job": dict(j, inline_source=REJECTED[j["id"].split(":")[1]]), "observed": r})

        # ---------------------------------------------------- configuration sweep (seeded sampling of the flag space)
        ncfg = 1500 if quick else 40000
        reqs = config_sweep_requests(seed, ncfg)
        log(f"[C12] configuration sweep: {ncfg} (header, option set) samples")
        # in chunks, with a circuit breaker: a defect that makes every sample of one header hang
        # must not turn the check into hours of waiting for time-outs
        res = []
        for lo in range(0, len(reqs), 200):
            part = run_requests(reqs[lo:lo + 200], timeout=60)
            res.extend(part)
            if sum(1 for r in part if r.get("kind") == "timeout") >= 3:
                log(f"[C12] configuration sweep stopped after {len(res)} samples: repeated time-outs")
                reqs = reqs[:len(res)]
                break
        rejected = 0
        for rq, r in zip(reqs, res):
            scen_total += 1
            j = rq["job"]
            k = r.get("kind")
            if k == "crash" and r.get("status") == 2:
                rejected += 1  # clap refused the option set: not a configuration
                continue
            outcomes[k] = outcomes.get(k, 0) + 1
            distinct.add(("config", fp_flags(j)))
            max_steps_ratio = max(max_steps_ratio, r.get("steps_ratio", 0))
            if k == "panic":
                site, msg = panic_site(r)
                if "BINDGEN_VERIF_STEP_BUDGET_EXCEEDED" in (r.get("err") or ""):
                    sig = {"class": "non-termination", "tier": "config-sweep", "site": site}
                else:
                    sig = {"class": "panic", "tier": "config-sweep", "site": site.rsplit(":", 1)[0],
                           "what": re.sub(r"[0-9]+", "N", msg)[:60],
                           "no_recursive_allowlist": "--no-recursive-allowlist" in j["flags"]}
                record(sig, {"kind": "corpus", "job": j, "observed": r})
            elif k in ("crash", "timeout"):
                record({"class": k, "tier": "config-sweep", "signal": r.get("signal"), "header": j["id"].split(":", 1)[1]},
                       {"kind": "corpus", "job": j, "observed": r})
            else:
                for run_ in (r.get("fix") or {}).get("runs", []):
                    if run_.get("oscillation") is not None:
                        record({"class": "non-termination", "tier": "config-sweep", "analysis": run_["analysis"]},
                               {"kind": "corpus", "job": j, "observed": {"kind": "oscillation", "run": run_}})
        config_stats = {"samples": ncfg, "rejected_by_cli_parser": rejected}
    finally:
        subprocess.run(["chmod", "-R", "u+rwx", root], stderr=subprocess.DEVNULL)
        shutil.rmtree(root, ignore_errors=True)

    hours = max(1e-9, (time.time() - out.t0) / 3600.0)
    out.coverage = {
        "evaluations": scen_total,
        "distinct_nontrivial": len(distinct),
        "rule": "one evaluation = one scenario process (fault plan over a header set, static file-system state, or "
                "corpus header under step budgets); distinct = distinct (header set, syscall, file, injected action, "
                "outcome kind) tuples among scenarios whose fault actually fired, plus distinct static states and "
                "corpus headers; a plan whose addressed occurrence is never reached is trivial and not counted",
        "samples": samples,
        "exhaustive": False,
        "fault_kinds_fired": dict(sorted(fired_kinds.items())),
        "scenarios_where_no_fault_fired": trivial,
        "system_header_faults_that_redirected_include_search": redirected[0],
        "outcomes": outcomes,
        "max_step_budget_ratio_permille": max_steps_ratio,
        "configuration_sweep": config_stats,
        "determinism_selfcheck": selfcheck,
        "runs_per_hour": int(scen_total / hours),
        "simulated_time": "no clock; liveness is measured in loop iterations against item-count budgets",
        "real_vs_stub": {"bindgen": "real", "libclang": "real", "libc file syscalls on the input path": "real, "
                         "individual calls failed by the LD_PRELOAD shim", "file system": "real files"},
        "scope_note": "C12's pure input part (mutants, option sets, deep nesting) has no schedule or fault in it and "
                      "is not what this technique decides; see DESIGN.md section 5.1",
    }
    out.assumptions = [
        "a failed file operation may fail the generation (any error value) but may never change the bindings",
        "silent corruption/truncation of file contents is a different input, not a fault, and is not injected",
        "EINTR is injected only transiently (LLVM retries forever on a persistent EINTR by design)",
    ]
    return out.finish()


def replay(doc):
    root = "/var/tmp/bvsim-c12r-%d" % os.getpid()
    shutil.rmtree(root, ignore_errors=True)
    os.makedirs(root)
    os.chmod(root, 0o755)
    work = os.path.join(root, "work")
    os.makedirs(work)
    os.chmod(work, 0o777)
    try:
        kind = doc["kind"]
        if kind == "plan":
            d = make_set(root, doc["set"])
            req = {"op": "gen", "job": job_for(d, doc["set"]), "arm_steps": True}
            ref, _ = run_child(req, [], work, "ref")
            obs, fired = run_child(req, doc["plan"], work, "replay")
            v = classify(obs, fired, ref)
            return bool(v) and v["class"] == doc["signature"]["class"], {"observed": obs, "fired": fired}
        if kind == "static":
            for tag, path, expect, uid in static_states(root):
                if tag == doc["state"]:
                    job = {"id": tag, "header": path, "flags": list(BASE_FLAGS)}
                    obs, fired = run_child({"op": "gen", "job": job, "arm_steps": True}, [], work, "replay", uid=uid)
                    v = classify(obs, ["static"], None, expect=expect)
                    return bool(v) and v["class"] == doc["signature"]["class"], {"observed": obs}
            raise HarnessError("unknown static state")
        if kind == "memory":
            for tag, spec, stdin in memory_input_states(root):
                if tag == doc["state"]:
                    obs, fired = run_child({"op": "gen", "job": dict(spec, id=tag), "arm_steps": True, "want_text": True}, [], work,
                                           "replay", timeout=60, stdin_text=stdin)
                    v = classify(obs, ["mem"], None, expect="OK")
                    if not v and stdin is not None and ("Piped" if "large" not in tag else "P2999") not in (obs.get("text") or ""):
                        v = {"class": "bindings-incomplete"}
                    obs.pop("text", None)
                    return bool(v) and v["class"] == doc["signature"]["class"], {"observed": obs}
            raise HarnessError("unknown memory-input state")
        if kind == "output":
            for tag, h, fl in output_path_states(root):
                if tag == doc["state"]:
                    obs, fired = run_child({"op": "gen", "job": {"id": tag, "header": h, "flags": list(BASE_FLAGS) + fl},
                                            "arm_steps": True}, [], work, "replay", timeout=40)
                    v = classify(obs, ["output"], None)
                    return bool(v) and v["class"] == doc["signature"]["class"], {"observed": obs}
            raise HarnessError("unknown output-path state")
        if kind == "multi":
            for tag, hs, fl, expect in multi_header_states(root):
                if tag == doc["state"]:
                    obs, fired = run_child({"op": "gen", "job": {"id": tag, "headers": hs, "flags": list(BASE_FLAGS) + fl},
                                            "arm_steps": True}, [], work, "replay")
                    v = classify(obs, ["multi"], None, expect=expect)
                    return bool(v) and v["class"] == doc["signature"]["class"], {"observed": obs}
            raise HarnessError("unknown multi-header state")
        if kind == "config":
            d = make_set(root, "c-basic")
            job = {"id": "cfg", "header": os.path.join(d, "inc_b.h"), "flags": list(BASE_FLAGS) + doc["flags"]}
            obs, fired = run_child({"op": "gen", "job": job, "arm_steps": True}, [], work, "replay")
            v = classify(obs, ["cfg"], None, expect=doc["expect"])
            return bool(v) and v["class"] == doc["signature"]["class"], {"observed": obs}
        if kind == "corpus":
            r = run_requests([{"op": "gen", "job": doc["job"], "arm_steps": True}], workers=1, timeout=300)[0]
            return r.get("kind") == doc["observed"].get("kind"), r
        raise HarnessError(f"unknown C12 replay kind {kind}")
    finally:
        subprocess.run(["chmod", "-R", "u+rwx", root], stderr=subprocess.DEVNULL)
        shutil.rmtree(root, ignore_errors=True)


# ---------------------------------------------------------------- deep nesting (liveness / stack)

def deep_source(kind, d):
    if kind == "struct":
        s = "".join(f"struct L{i} {{ int v{i}; " for i in range(d))
        s += "".join((f"}} m{i}; " if i > 0 else "};") for i in reversed(range(d)))
        return s, "c"
    if kind == "ptr":
        return "typedef int " + "*" * d + " deep_ptr;\nstruct P { deep_ptr p; };", "c"
    if kind == "array":
        return "struct A { char a" + "[2]" * min(d, 60) + "; };", "c"
    if kind == "template":
        return ("template <typename T> struct W { T v; };\nstruct T0 { int x; };\ntypedef " + "W<" * d + "T0" +
                " >" * d + " deep_t;\nstruct U { deep_t d; };"), "c++"
    if kind == "typedefchain":
        return ("typedef int t0;\n" + "".join(f"typedef t{i} t{i + 1};\n" for i in range(d)) +
                f"struct C {{ t{d} x; }};"), "c"
    if kind == "inherit":
        return ("struct B0 { int x; virtual void f(); };\n" +
                "".join(f"struct B{i + 1} : B{i} {{ int y{i}; }};\n" for i in range(d))), "c++"
    if kind == "fnptr":
        return ("typedef int (*f0)(int);\n" + "".join(f"typedef f{i} (*f{i + 1})(f{i});\n" for i in range(d)) +
                f"struct F {{ f{d} f; }};"), "c"
    if kind == "ring":
        # d structs linked into one cycle by pointers: every type is first met
        # through its predecessor, so the whole ring is on the parse stack at once
        return ("".join(f"struct R{i};\n" for i in range(d)) +
                "".join(f"struct R{i} {{ struct R{(i + 1) % d}* next; int v{i}; }};\n" for i in range(d))), "c"
    if kind == "ring_template":
        body = "".join(f"    struct N{i} {{ N{(i + 1) % d}* next; T v; }};\n" for i in reversed(range(d)))
        fwd = "".join(f"    struct N{i};\n" for i in range(d))
        # the static_asserts force clang to instantiate every member struct of Ring<int>
        asserts = "".join(f"    static_assert(sizeof(N{i}) > 0, \"\");\n" for i in range(d))
        return (f"template <typename T> struct Ring {{\n{fwd}{body}{asserts}}};\nstruct User {{ Ring<int>::N0 head; }};\n"), "c++"
    if kind == "namespace":
        return ("".join(f"namespace n{i} {{ struct S{i} {{ int a; }}; " for i in range(d)) + "}" * d), "c++"
    raise ValueError(kind)


DEEP_KINDS = ["struct", "ptr", "array", "template", "typedefchain", "inherit", "fnptr", "namespace", "ring",
              "ring_template"]


# ---------------------------------------------------------------- headers clang rejects

REJECTED = {
    "toplevel-syntax.h": "struct Broken { int a; \nint oops(;\n",
    "unknown-type.h": "struct U { not_a_type x; };\n",
    "error-in-function-body.h": "struct point { int x, y; };\nstatic inline int area(struct point* p) { return p->x * p->z; }\n",
    "error-in-inline-body-cpp.hpp": "struct P { int x; int get() const { return this->nope; } };\n",
    "error-directive.h": "#error this header must not be used\nstruct E { int e; };\n",
    "missing-include.h": "#include \"does_not_exist_anywhere.h\"\nstruct M { int m; };\n",
    "error-in-macro.h": "#define DECL(t, n) t n\nDECL(int, 3x);\nstruct K { int k; };\n",
    "many-warnings-then-error.h": "".join(f"#define NOISY_{i % 20} {i}\n" for i in range(60)) +
                                  "struct Dev { unknown_handle_t h; };\n",
    "redefinition.h": "struct D { int a; };\nstruct D { long b; };\n",
    "template-error.hpp": "template <typename T> struct W { typename T::nested v; };\nW<int> w;\n",
    "static-assert.hpp": "static_assert(sizeof(int) == 3, \"no\");\nstruct S { int s; };\n",
    "undeclared-in-default-arg.hpp": "int f(int a = undeclared_name);\n",
    "bad-array-size.h": "struct A { int a[-1]; };\n",
    "incomplete-field.h": "struct Inc; struct H { struct Inc i; };\n",
}


def rejected_requests(root):
    d = os.path.join(root, "rejected")
    os.makedirs(d, exist_ok=True)
    reqs = []
    for name, text in sorted(REJECTED.items()):
        path = os.path.join(d, name)
        with open(path, "w") as f:
            f.write(text)
        cpp = name.endswith(".hpp")
        extra = ["-x", "c++", "-std=c++14"] if cpp else ["-x", "c", "-std=c11"]
        # the property's classifier: does clang itself accept the header?
        p = subprocess.run(["clang", "-fsyntax-only"] + extra + [path], stdout=subprocess.DEVNULL, stderr=subprocess.DEVNULL)
        for variant, vflags in (("default", []), ("inline-fns", ["--generate-inline-functions"])):
            reqs.append(({"op": "gen", "job": {"id": f"rejected:{name}:{variant}", "header": path,
                                               "flags": list(BASE_FLAGS) + vflags + ["--"] + extra}, "arm_steps": True},
                         p.returncode != 0))
    return reqs


def deep_requests(root, depths):
    d = os.path.join(root, "deep")
    os.makedirs(d, exist_ok=True)
    reqs = []
    for kind in DEEP_KINDS:
        for depth in depths:
            src, lang = deep_source(kind, depth)
            path = os.path.join(d, f"{kind}_{depth}." + ("hpp" if lang == "c++" else "h"))
            with open(path, "w") as f:
                f.write(src)
            extra = ["-x", "c++", "-std=c++14", "-ftemplate-depth=2000"] if lang == "c++" else ["-x", "c", "-fbracket-depth=2000"]
            flags = list(BASE_FLAGS) + (["--enable-cxx-namespaces"] if kind == "namespace" else []) + ["--"] + extra
            reqs.append({"op": "gen", "job": {"id": f"deep:{kind}:{depth}", "header": path, "flags": flags},
                         "arm_steps": True, "fix": {"seed": 0, "reference": False}})
    return reqs


# ---------------------------------------------------------------- configuration sweep (sampling, see scope note)

NOARG = """--no-layout-tests --no-derive-copy --no-derive-debug --impl-debug --impl-partialeq --with-derive-default
--with-derive-hash --with-derive-partialeq --with-derive-partialord --with-derive-eq --with-derive-ord --no-doc-comments
--no-recursive-allowlist --nonnull-references --generate-block --generate-cstr --distrust-clang-mangling
--enable-cxx-namespaces --disable-name-namespacing --disable-nested-struct-naming --disable-untagged-union
--ignore-functions --ignore-methods --no-convert-floats --no-prepend-enum-name --fit-macro-constant-types --use-core
--conservative-inline-namespaces --generate-inline-functions --no-record-matches --no-size_t-is-usize
--enable-function-attribute-detection --use-array-pointers-in-arguments --respect-cxx-access-specs
--translate-enum-integer-types --c-naming --explicit-padding --use-specific-virtual-function-receiver
--vtable-generation --sort-semantically --merge-extern-blocks --wrap-unsafe-ops --flexarray-dst
--generate-deleted-functions --generate-pure-virtual-functions --generate-private-functions""".split()

WITHARG = {
    "--default-enum-style": ["consts", "moduleconsts", "bitfield", "newtype", "newtype_global", "rust", "rust_non_exhaustive"],
    "--default-macro-constant-type": ["signed", "unsigned"],
    "--default-alias-style": ["type_alias", "new_type", "new_type_deref"],
    "--default-non-copy-union-style": ["bindgen_wrapper", "manually_drop"],
    "--default-visibility": ["private", "crate", "public"],
    "--rust-target": ["1.51", "1.59", "1.64", "1.68", "1.71", "1.73", "1.77", "1.82", "1.85"],
    "--ctypes-prefix": ["libc", "::core::ffi"],
    "--anon-fields-prefix": ["anon_"],
    "--dynamic-loading": ["Lib"],
    "--generate": ["types", "functions,types", "vars", "types,methods,constructors,destructors", "functions,types,vars"],
    "--rustified-enum": [".*"], "--bitfield-enum": [".*"], "--newtype-enum": [".*"], "--constified-enum-module": [".*"],
    "--rustified-non-exhaustive-enum": [".*"], "--newtype-global-enum": [".*"], "--constified-enum": [".*"],
    "--opaque-type": [".*", "[A-M].*"], "--blocklist-type": ["[N-Z].*", ".*_t"], "--blocklist-function": [".*"],
    "--no-copy": [".*"], "--no-debug": [".*"], "--no-default": [".*"], "--no-hash": [".*"], "--no-partialeq": [".*"],
    "--must-use-type": [".*"], "--new-type-alias": [".*"], "--new-type-alias-deref": [".*"],
    "--bindgen-wrapper-union": [".*"], "--manually-drop-union": [".*"],
    "--allowlist-type": ["[A-Za-m].*"], "--allowlist-function": [".*"], "--allowlist-var": [".*"],
    "--with-derive-custom": [".*=Clone"], "--with-attribute-custom-struct": [".*=#[allow(dead_code)]"],
    "--override-abi": [".*=C-unwind"], "--prefix-link-name": ["pfx_"], "--wasm-import-module-name": ["wasm"],
}


def random_flags(rng, present):
    """Extra flags that clap accepts next to `present` (no flag twice, no second
    value for a single-valued option)."""
    flags = []
    have = set(present)
    for _ in range(rng.below(7)):
        f = rng.pick(NOARG)
        if f not in have:
            have.add(f)
            flags.append(f)
    single = ("--default-enum-style", "--default-macro-constant-type", "--default-alias-style",
              "--default-non-copy-union-style", "--default-visibility", "--rust-target", "--ctypes-prefix",
              "--anon-fields-prefix", "--dynamic-loading", "--generate", "--prefix-link-name",
              "--wasm-import-module-name")
    for _ in range(rng.below(4)):
        k = rng.pick(sorted(WITHARG))
        if k in single and k in have:
            continue
        have.add(k)
        flags += [k, rng.pick(WITHARG[k])]
    return flags


def fp_flags(job):
    return job["id"].split(":", 1)[1] + "|" + " ".join(job["flags"])


def config_sweep_requests(seed, n):
    # operator_equals.hpp needs --represent-cxx-operators plus a cooperating callback: excluded by the property
    jobs = [j for j in corpus_jobs() if "--represent-cxx-operators" not in j["flags"]]
    data = os.path.join(os.path.dirname(os.path.dirname(os.path.abspath(__file__))), "data")
    dense = [{"id": "dense.h", "header": os.path.join(data, "dense.h"), "flags": ["--", "-x", "c", "-std=c11"]},
             {"id": "dense.hpp", "header": os.path.join(data, "dense.hpp"), "flags": ["--", "-x", "c++", "-std=c++17"]},
             {"id": "dense.hpp", "header": os.path.join(data, "dense.hpp"),
              "flags": ["--enable-cxx-namespaces", "--", "-x", "c++", "-std=c++17"]},
             {"id": "dense.m", "header": os.path.join(data, "dense.m"), "flags": ["--", "-x", "objective-c", "-fblocks"]},
             {"id": "dense.m", "header": os.path.join(data, "dense.m"),
              "flags": ["--objc-extern-crate", "--", "-x", "objective-c", "-fblocks"]}]
    for dj in dense:
        dj["flags"] = ["--formatter=none"] + dj["flags"]
    reqs = []
    for i in range(n):
        rng = Rng.for_case(seed, "c12-config", i)
        # half of the samples use the feature-dense headers so that an option
        # combination meets the declaration shape it needs
        j = dict(rng.pick(dense)) if rng.chance(500) else dict(rng.pick(jobs))
        flags = list(j["flags"])
        extra = random_flags(rng, flags)
        if "--" in flags:
            k = flags.index("--")
            flags = flags[:k] + extra + flags[k:]
        else:
            flags = flags + extra
        j["flags"] = flags
        j["id"] = f"cfg{i}:{j['id']}"
        reqs.append({"op": "gen", "job": j, "arm_steps": True, "fix": {"seed": 0, "reference": False}})
    return reqs
