"""Shared machinery of the /verif checks: seeds, build, worker pool, evidence,
known findings, replay files. Python only orchestrates: every generation runs in
the Rust driver (bvsim) linked against /repo's working tree with
--cfg bindgen_verif."""
import hashlib
import json
import os
import queue
import shlex
import subprocess
import sys
import threading
import time

VERIF = os.path.dirname(os.path.dirname(os.path.abspath(__file__)))
REPO = "/repo"
DRIVER = os.path.join(VERIF, "driver")
TARGET = os.path.join(VERIF, "target")
BVSIM = os.path.join(TARGET, "debug", "bvsim")
SHIM = os.path.join(TARGET, "shim", "fsfault.so")
HEADERS = os.path.join(REPO, "bindgen-tests", "tests", "headers")
DEFAULT_SEED = 20260925
NCPU = os.cpu_count() or 4


class HarnessError(Exception):
    """Something is wrong with the machinery itself (exit 2), never a
    property violation."""


def seed_from_env():
    s = os.environ.get("VERIF_SEED", "").strip()
    if not s:
        return DEFAULT_SEED
    try:
        return int(s, 0) & 0xFFFFFFFFFFFFFFFF
    except ValueError:
        return int(hashlib.sha256(s.encode()).hexdigest()[:16], 16)


class Rng:
    """SplitMix64; the same generator the Rust side uses. One stream per case,
    derived from (root seed, engine tag, case index): nothing is shared across
    workers, so results do not depend on worker count or completion order."""

    M = 0xFFFFFFFFFFFFFFFF

    def __init__(self, seed):
        self.s = seed & self.M

    @staticmethod
    def for_case(root, engine, index):
        h = hashlib.sha256(f"{root}/{engine}/{index}".encode()).digest()
        return Rng(int.from_bytes(h[:8], "little"))

    def next(self):
        self.s = (self.s + 0x9E3779B97F4A7C15) & self.M
        z = self.s
        z = ((z ^ (z >> 30)) * 0xBF58476D1CE4E5B9) & self.M
        z = ((z ^ (z >> 27)) * 0x94D049BB133111EB) & self.M
        return z ^ (z >> 31)

    def below(self, n):
        return self.next() % n if n > 0 else 0

    def chance(self, permille):
        return self.below(1000) < permille

    def pick(self, xs):
        return xs[self.below(len(xs))]

    def shuffle(self, xs):
        for i in range(len(xs) - 1, 0, -1):
            j = self.below(i + 1)
            xs[i], xs[j] = xs[j], xs[i]
        return xs

    def sample(self, xs, k):
        xs = list(xs)
        self.shuffle(xs)
        return xs[:k]


def fp(data):
    if isinstance(data, str):
        data = data.encode()
    return hashlib.sha256(data).hexdigest()[:32]


def log(msg):
    print(msg, file=sys.stderr, flush=True)


def build_driver():
    """Rebuild the driver (and with it the bindgen library from /repo's current
    working tree, hooks on). Raises HarnessError if the build fails."""
    t0 = time.time()
    env = dict(os.environ)
    env["CARGO_NET_OFFLINE"] = "true"
    env.pop("RUSTFLAGS", None)  # the driver's .cargo/config.toml sets the cfg
    p = subprocess.run(
        ["cargo", "build", "--offline", "--bins"],
        cwd=DRIVER,
        env=env,
        stdout=subprocess.PIPE,
        stderr=subprocess.STDOUT,
        text=True,
    )
    if p.returncode != 0 or not os.path.exists(BVSIM):
        sys.stderr.write(p.stdout[-6000:])
        raise HarnessError("driver build failed")
    os.makedirs(os.path.dirname(SHIM), exist_ok=True)
    src = os.path.join(VERIF, "shim", "fsfault.c")
    if not os.path.exists(SHIM) or os.path.getmtime(SHIM) < os.path.getmtime(src):
        q = subprocess.run(["clang", "-shared", "-fPIC", "-O2", "-o", SHIM, src, "-ldl", "-lpthread"],
                           stdout=subprocess.PIPE, stderr=subprocess.STDOUT, text=True)
        if q.returncode != 0:
            sys.stderr.write(q.stdout[-3000:])
            raise HarnessError("shim build failed")
    return time.time() - t0


class Worker:
    def __init__(self, env=None, cwd=None):
        self.env = env
        self.cwd = cwd
        self.proc = None
        self.start()

    def start(self):
        env = dict(os.environ)
        env.setdefault("RUST_BACKTRACE", "0")
        if self.env:
            env.update(self.env)
        self.proc = subprocess.Popen(
            [BVSIM, "worker"],
            stdin=subprocess.PIPE,
            stdout=subprocess.PIPE,
            stderr=subprocess.DEVNULL,
            env=env,
            cwd=self.cwd,
            text=True,
            bufsize=1,
        )

    def request(self, req, timeout):
        """Send one request. A dead or stuck worker is reported as an
        observation (kind crash/timeout) and the worker is restarted."""
        line = json.dumps(req)
        timer = threading.Timer(timeout, self._kill)
        timed_out = []
        self._timed_out = timed_out
        timer.start()
        try:
            try:
                self.proc.stdin.write(line + "\n")
                self.proc.stdin.flush()
                out = self.proc.stdout.readline()
            except (BrokenPipeError, OSError):
                out = ""
        finally:
            timer.cancel()
        if out:
            try:
                return json.loads(out)
            except json.JSONDecodeError:
                pass
        rc = self.proc.wait()
        kind = "timeout" if timed_out else "crash"
        self.start()
        return {"kind": kind, "status": rc, "id": req.get("job", {}).get("id")}

    def _kill(self):
        self._timed_out.append(True)
        try:
            self.proc.kill()
        except OSError:
            pass

    def close(self):
        try:
            self.proc.stdin.close()
            self.proc.wait(timeout=5)
        except Exception:
            try:
                self.proc.kill()
            except OSError:
                pass


def run_requests(reqs, workers=None, timeout=120, env=None, progress=None, cwd=None):
    """Run all requests on a pool of persistent worker processes; results are
    returned in request order, so nothing depends on scheduling."""
    n = len(reqs)
    results = [None] * n
    if n == 0:
        return results
    workers = min(workers or NCPU, n)
    q = queue.Queue()
    for i in range(n):
        q.put(i)
    done = [0]
    lock = threading.Lock()

    counter = [0]

    def loop():
        wcwd = cwd
        if cwd is not None:
            # every worker process gets its own working directory: files that
            # generations drop into "." must not collide across processes
            with lock:
                counter[0] += 1
                wcwd = os.path.join(cwd, f"w{counter[0]}")
            os.makedirs(wcwd, exist_ok=True)
        w = Worker(env, wcwd)
        try:
            while True:
                try:
                    i = q.get_nowait()
                except queue.Empty:
                    return
                results[i] = w.request(reqs[i], timeout)
                with lock:
                    done[0] += 1
                    if progress and done[0] % progress == 0:
                        log(f"  .. {done[0]}/{n}")
        finally:
            w.close()

    threads = [threading.Thread(target=loop) for _ in range(workers)]
    for t in threads:
        t.start()
    for t in threads:
        t.join()
    return results


# ---------------------------------------------------------------- corpus

def corpus_jobs():
    """Every repository header with the flags its own `// bindgen-flags:` lines
    give it, the way bindgen-tests builds its builders (parse callbacks of the
    test crate are not available to us and are left out)."""
    jobs = []
    for name in sorted(os.listdir(HEADERS)):
        path = os.path.join(HEADERS, name)
        if not os.path.isfile(path) or not (name.endswith(".h") or name.endswith(".hpp")):
            continue
        flags = []
        try:
            with open(path, encoding="utf-8", errors="replace") as f:
                for line in f:
                    if not line.startswith("// bindgen"):
                        continue
                    if "bindgen-flags: " in line:
                        flags.extend(shlex.split(line.split("bindgen-flags: ")[-1].strip()))
                    elif "bindgen-osx-only" in line:
                        flags = ["--raw-line", '#![cfg(target_os="macos")]'] + flags
        except OSError:
            continue
        jobs.append({"id": name, "header": path, "flags": flags, "corpus": True})
    return jobs


# ---------------------------------------------------------------- scratch files

def make_scratch(tag):
    """A scratch directory outside /repo and /verif's tracked files (removed by
    the check when it is done)."""
    import tempfile
    base = "/dev/shm" if os.path.isdir("/dev/shm") else None
    return tempfile.mkdtemp(prefix=f"bvsim-{tag}-", dir=base)


def remove_scratch(path):
    import shutil
    shutil.rmtree(path, ignore_errors=True)


def write_header_job(scratch, job_id, name, text, flags, extra=None):
    """A job whose header text is inlined in the job description (so replay
    files are self-contained) and materialised as a file for the run."""
    d = os.path.join(scratch, job_id)
    os.makedirs(d, exist_ok=True)
    path = os.path.join(d, name)
    with open(path, "w") as f:
        f.write(text)
    job = {"id": job_id, "header": path, "flags": list(flags), "inline": {"name": name, "text": text}}
    if extra:
        job.update(extra)
    return job


def materialise(job, scratch):
    """Re-create the header file of an inlined job (used by replay)."""
    if "inline" in job:
        return write_header_job(scratch, job["id"], job["inline"]["name"], job["inline"]["text"], job["flags"],
                                {k: v for k, v in job.items() if k not in ("id", "header", "flags", "inline")})
    return job


# ---------------------------------------------------------------- findings

def load_known_findings():
    path = os.path.join(VERIF, "known_findings.json")
    if not os.path.exists(path):
        return []
    with open(path) as f:
        data = json.load(f)
    return [e for e in data.get("findings", []) if e.get("status") == "known"]


def match_known(prop, signature, known):
    """A violation is a known finding iff its signature dict contains every
    key/value of a listed entry's `signature` (entries are specific: class plus
    call site / option / file pair)."""
    for e in known:
        if e.get("property") != prop:
            continue
        sig = e.get("signature", {})
        if all(str(signature.get(k)) == str(v) for k, v in sig.items()):
            return e
    return None


# ---------------------------------------------------------------- output

class Outcome:
    """Collects violations / known findings of one check run and produces the
    exit status and the evidence file."""

    def __init__(self, prop, tier, seed, level):
        self.prop = prop
        self.tier = tier
        self.seed = seed
        self.level = level
        self.t0 = time.time()
        self.violations = []  # (signature, replay path)
        self.known_hits = {}
        self.known = load_known_findings()
        self.coverage = {}
        self.assumptions = []
        self.harness_errors = []

    def violation(self, signature, replay_doc):
        """Record a violation; returns True if it is new (not a known finding)."""
        e = match_known(self.prop, signature, self.known)
        if e is not None:
            self.known_hits.setdefault(e["id"], [e, 0])[1] += 1
            return False
        os.makedirs(os.path.join(VERIF, "replays"), exist_ok=True)
        name = f"{self.prop}-{self.seed}-{fp(json.dumps(signature, sort_keys=True))[:10]}.json"
        path = os.path.join(VERIF, "replays", name)
        replay_doc = dict(replay_doc)
        replay_doc["property"] = self.prop
        replay_doc["signature"] = signature
        replay_doc["seed"] = self.seed
        with open(path, "w") as f:
            json.dump(replay_doc, f, indent=1)
        self.violations.append((signature, path))
        return True

    def finish(self):
        wall = time.time() - self.t0
        ev = {
            "property_id": self.prop,
            "tier": self.tier,
            "seed": self.seed,
            "level": self.level,
            "coverage": self.coverage,
            "assumptions": self.assumptions,
            "wall_s": round(wall, 2),
            "violations": len(self.violations),
            "known_findings_hit": {k: v[1] for k, v in self.known_hits.items()},
        }
        os.makedirs(os.path.join(VERIF, "evidence"), exist_ok=True)
        with open(os.path.join(VERIF, "evidence", f"{self.prop}.json"), "w") as f:
            json.dump(ev, f, indent=1, sort_keys=True)
        for k, (e, n) in sorted(self.known_hits.items()):
            print(f"KNOWN-FINDING: property={self.prop} {e['id']}: {e['what']} (seen {n}x this run)")
        seen = set()
        for sig, path in self.violations:
            if path in seen:
                continue
            seen.add(path)
            print(f"VIOLATION property={self.prop} replay={path}")
            log(f"  signature: {json.dumps(sig, sort_keys=True)}")
        for h in self.harness_errors:
            log(f"HARNESS ERROR: {h}")
        if self.violations:
            return 1
        return 2 if self.harness_errors else 0
