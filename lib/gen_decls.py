"""Generator of C/C++ declaration graphs with a known dependency relation, and
of the valid re-orderings of their top-level declarations (C07 schedule space
S-a). Every entity is named; nothing anonymous is generated at top level so the
per-type inventory of the bindings can be compared by name."""
import itertools

PRIMS = ["int", "char", "short", "long", "unsigned", "float", "double", "bool", "long long"]
C_PRIMS = ["int", "char", "short", "long", "unsigned", "float", "double", "long long"]


class Entity:
    def __init__(self, name, kind, defn, hard=(), soft=(), fwd=None, complete=()):
        self.name = name
        self.kind = kind
        self.defn = defn
        self.hard = set(hard)      # must be *defined* earlier
        self.soft = set(soft)      # must be declared (fwd or def) earlier
        self.fwd = fwd             # text of a forward declaration, if one exists
        # what a by-value use of this entity needs complete (incl. itself)
        self.complete = set(complete) | {name}


class Program:
    def __init__(self, lang):
        self.lang = lang
        self.entities = []
        self.by_name = {}
        self.flags = []
        self.notes = []
        self.callbacks = False

    def add(self, e):
        self.entities.append(e)
        self.by_name[e.name] = e

    def names(self, kinds):
        return [e.name for e in self.entities if e.kind in kinds]

    def spell(self, name):
        """How a use site names the entity (C needs the tag keyword)."""
        e = self.by_name.get(name)
        kind = e.kind if e is not None else {"S": "struct", "U": "union"}.get(name[0])
        if self.lang == "c" and kind in ("struct", "union", "enum"):
            return f"{kind} {name}"
        return name


def _use(prog, rng, e_hard, e_soft, allow_incomplete_self=None):
    """A field/param type that uses another entity. Returns (type text template
    with %s for the declarator name, is_array_suffix)."""
    records = prog.names(("struct", "class", "union", "typedef", "inst_typedef"))
    templates = prog.names(("template",))
    choice = rng.below(100)
    if records and choice < 30:
        t = rng.pick(records)
        e_hard |= prog.by_name[t].complete
        return f"{prog.spell(t)} %s"
    if records and choice < 55:
        t = rng.pick(records + ([allow_incomplete_self] if allow_incomplete_self else []))
        if t != allow_incomplete_self:
            e_soft.add(t)
        return f"{prog.spell(t)}* %s"
    if records and choice < 62:
        t = rng.pick(records)
        e_hard |= prog.by_name[t].complete
        return f"{prog.spell(t)} %s[{rng.pick([1, 2, 3, 33, 40])}]"
    if records and choice < 68 and prog.lang == "c++":
        t = rng.pick(records)
        e_soft.add(t)
        return f"{t}& %s"
    if records and choice < 75:
        t = rng.pick(records)
        e_soft.add(t)
        return f"void (*%s)({prog.spell(t)}*, int)"
    if templates and choice < 92:
        w = rng.pick(templates)
        we = prog.by_name[w]
        args = []
        for k in range(we.nparams):
            if getattr(we, "param_kinds", None) and we.param_kinds[k] == "int":
                args.append(str(rng.pick([1, 2, 3, 8])))
            elif records and rng.chance(600):
                a = rng.pick(records)
                e_hard |= prog.by_name[a].complete
                args.append(a)
            else:
                args.append(rng.pick(PRIMS))
        e_hard |= we.complete
        return f"{w}<{', '.join(args)}> %s"
    p = rng.pick(PRIMS if prog.lang == "c++" else C_PRIMS)
    r = rng.below(10)
    if r == 0:
        return f"{p} %s[{rng.pick([2, 8, 32, 33, 64])}]"
    if r == 1:
        return f"{p}* %s"
    if r == 2 and p in ("int", "unsigned", "char", "short"):
        return f"{p} %s : {rng.pick([1, 3, 7])}"
    return f"{p} %s"


def gen_program(rng, lang=None, max_entities=10):
    lang = lang or ("c++" if rng.chance(750) else "c")
    prog = Program(lang)
    n = 3 + rng.below(max(1, max_entities - 2))
    idx = 0
    while len(prog.entities) < n:
        idx += 1
        r = rng.below(100)
        if lang == "c":
            if r < 55:
                _gen_record(prog, rng, idx, "struct")
            elif r < 70:
                _gen_record(prog, rng, idx, "union")
            elif r < 82:
                _gen_typedef(prog, rng, idx)
            elif r < 86:
                _gen_vector(prog, rng, idx)
            elif r < 91:
                _gen_function(prog, rng, idx)
            elif r < 96:
                _gen_var(prog, rng, idx)
            else:
                _gen_enum(prog, rng, idx)
        else:
            if r < 40:
                _gen_record(prog, rng, idx, "struct")
            elif r < 48:
                _gen_record(prog, rng, idx, "union")
            elif r < 66:
                _gen_template(prog, rng, idx)
            elif r < 76:
                _gen_typedef(prog, rng, idx)
            elif r < 79:
                _gen_vector(prog, rng, idx)
            elif r < 86:
                _gen_alias_template(prog, rng, idx)
            elif r < 90:
                _gen_function(prog, rng, idx)
            elif r < 94:
                _gen_var(prog, rng, idx)
            elif r < 98:
                _gen_namespace(prog, rng, idx)
            else:
                _gen_enum(prog, rng, idx)
    _gen_flags(prog, rng)
    return prog


def _gen_record(prog, rng, idx, kw):
    name = f"{'S' if kw == 'struct' else 'U'}{idx}"
    hard, soft = set(), set()
    lines = []
    bases = []
    cpp = prog.lang == "c++"
    if cpp and kw == "struct":
        cands = prog.names(("struct", "class"))
        # a base may also be named through a typedef of a struct
        cands += [e.name for e in prog.entities if e.kind == "typedef" and getattr(e, "target_record", None)]
        nb = 0 if not cands else rng.pick([0, 0, 1, 1, 2])
        seen_targets = set()
        for b in rng.sample(cands, min(nb, len(cands))):
            tgt = getattr(prog.by_name[b], "target_record", None) or b
            if tgt in seen_targets:
                continue  # the same class twice as a direct base is ill-formed
            seen_targets.add(tgt)
            hard |= prog.by_name[b].complete
            bases.append(("virtual " if rng.chance(120) else "") + "public " + b)
    nf = rng.below(5)
    if cpp and kw == "struct":
        if rng.chance(180):
            lines.append(f"    virtual void vm{idx}();")
        if rng.chance(120):
            lines.append(f"    virtual ~{name}();")
        elif rng.chance(120):
            lines.append(f"    ~{name}();")
    for k in range(nf):
        if rng.chance(140):
            # an anonymous aggregate member: `struct { ... };` (its fields are
            # injected into the parent) or `union { ... } fK;`
            akw = rng.pick(["struct", "union"])
            inner = []
            for m in range(1 + rng.below(3)):
                t = _use(prog, rng, hard, soft, allow_incomplete_self=name)
                if ":" in t or "&" in t:
                    t = "int %s"
                inner.append("        " + (t % f"a{k}_{m}") + ";")
            decl = "" if rng.chance(600) else f" f{k}"
            lines.append(f"    {akw} {{\n" + "\n".join(inner) + f"\n    }}{decl};")
            continue
        t = _use(prog, rng, hard, soft, allow_incomplete_self=name)
        if ":" in t and kw == "union":
            t = "int %s"
        if "&" in t and kw == "union":
            t = "int %s"
        lines.append("    " + (t % f"f{k}") + ";")
    if cpp and kw == "struct" and rng.chance(150):
        lines.append(f"    void m{idx}({name}* o);")
    if cpp and kw == "struct" and rng.chance(70):
        lines.append(f"    int wide{idx} : 40;")
    head = f"{kw} {name}" + (" : " + ", ".join(bases) if bases else "")
    if not lines and not cpp:
        lines.append("    int pad;")
    body = "\n".join(lines)
    defn = f"{head} {{\n{body}\n}};" if lines else f"{head} {{}};"
    e = Entity(name, kw, defn, hard, soft, fwd=f"{kw} {name};")
    e.hard.discard(name)
    e.soft.discard(name)
    prog.add(e)


def _gen_template(prog, rng, idx):
    name = f"W{idx}"
    nparams = rng.pick([1, 1, 1, 2])
    params = [f"T{k}" for k in range(nparams)]
    hard, soft = set(), set()
    lines = []
    used_any = False
    for k, p in enumerate(params):
        r = rng.below(100)
        if r < 35:
            lines.append(f"    {p} v{k};")
            used_any = True
        elif r < 55:
            lines.append(f"    {p}* p{k};")
        elif r < 70:
            lines.append(f"    {p} arr{k}[{rng.pick([2, 4, 40])}];")
            used_any = True
        elif r < 80:
            lines.append(f"    int unused{k};")
    for k in range(rng.below(3)):
        t = _use(prog, rng, hard, soft)
        if ":" in t:
            t = "int %s"
        lines.append("    " + (t % f"g{k}") + ";")
    # templates instantiated with each other: another template applied to this
    # template's own parameters, by value (needs the definition) or through a
    # pointer (a forward declaration suffices, so the definition may follow)
    others = [t for t in prog.names(("template",))
              if all(k == "type" for k in getattr(prog.by_name[t], "param_kinds", ["type"]))]
    for k in range(rng.below(3) if others else 0):
        w = rng.pick(others)
        we = prog.by_name[w]
        args = ", ".join(rng.pick(params) for _ in range(we.nparams))
        if rng.chance(550):
            soft.add(w)
            lines.append(f"    {w}<{args}>* tp{k};")
        else:
            hard |= we.complete
            lines.append(f"    {w}<{args}> tv{k};")
    bases = []
    cands = prog.names(("struct",))
    if cands and rng.chance(200):
        b = rng.pick(cands)
        hard |= prog.by_name[b].complete
        bases.append("public " + b)
    if rng.chance(120):
        lines.append(f"    virtual void tv{idx}();")
    if rng.chance(100):
        lines.append(f"    ~{name}();")
    param_kinds = ["type"] * nparams
    decls = ["typename " + p for p in params]
    if rng.chance(180):
        # a non-type parameter: bindgen makes such a template opaque on its own
        param_kinds.append("int")
        decls.append(f"int N{idx}")
        lines.append(f"    int sized{idx}[N{idx}];")
        nparams += 1
    head = f"template <{', '.join(decls)}> struct {name}" + (
        " : " + ", ".join(bases) if bases else "")
    body = "\n".join(lines)
    defn = f"{head} {{\n{body}\n}};" if lines else f"{head} {{}};"
    fwd = f"template <{', '.join(decls)}> struct {name};"
    e = Entity(name, "template", defn, hard, soft, fwd=fwd)
    e.param_kinds = param_kinds
    e.nparams = nparams
    e.used_any = used_any
    prog.add(e)


def _gen_typedef(prog, rng, idx):
    name = f"T{idx}_t"
    cands = prog.names(("struct", "union", "typedef", "inst_typedef"))
    templates = prog.names(("template",))
    if templates and prog.lang == "c++" and rng.chance(450):
        w = rng.pick(templates)
        we = prog.by_name[w]
        hard = set(we.complete)
        args = []
        for k in range(we.nparams):
            recs = prog.names(("struct", "union"))
            if getattr(we, "param_kinds", None) and we.param_kinds[k] == "int":
                args.append(str(rng.pick([1, 2, 4])))
            elif recs and rng.chance(500):
                a = rng.pick(recs)
                hard |= prog.by_name[a].complete
                args.append(a)
            else:
                args.append(rng.pick(PRIMS))
        prog.add(Entity(name, "inst_typedef", f"typedef {w}<{', '.join(args)}> {name};",
                        hard=hard, complete=hard))
        return
    if cands and rng.chance(800):
        t = rng.pick(cands)
        te = prog.by_name[t]
        ptr = rng.chance(250)
        if ptr:
            prog.add(Entity(name, "typedef", f"typedef {prog.spell(t)}* {name};", soft={t}))
        else:
            e = Entity(name, "typedef", f"typedef {prog.spell(t)} {name};", soft={t}, complete=te.complete)
            if te.kind in ("struct", "class"):
                e.target_record = t
            elif getattr(te, "target_record", None):
                e.target_record = te.target_record
            prog.add(e)
    else:
        p = rng.pick(C_PRIMS)
        e = Entity(name, "typedef", f"typedef {p} {name};")
        e.prim_target = p
        prog.add(e)


def _gen_vector(prog, rng, idx):
    """A SIMD vector typedef whose lane type is a primitive or a typedef of one."""
    name = f"V{idx}_t"
    lanes = [e.name for e in prog.entities if e.kind == "typedef" and getattr(e, "prim_target", None)]
    if lanes and rng.chance(650):
        lane = rng.pick(lanes)
        e = Entity(name, "typedef", f"typedef {lane} {name} __attribute__((vector_size(16)));", hard={lane})
    else:
        lane = rng.pick(["float", "int", "double", "short", "unsigned"])
        e = Entity(name, "typedef", f"typedef {lane} {name} __attribute__((vector_size(16)));")
    prog.add(e)


def _gen_alias_template(prog, rng, idx):
    templates = [t for t in prog.names(("template",)) if prog.by_name[t].nparams == 1 and
                 getattr(prog.by_name[t], "param_kinds", ["type"]) == ["type"]]
    if not templates:
        return _gen_template(prog, rng, idx)
    w = rng.pick(templates)
    name = f"A{idx}"
    e = Entity(name, "template", f"template <typename T> using {name} = {w}<T>;",
               hard=set(prog.by_name[w].complete), complete=prog.by_name[w].complete)
    e.nparams = 1
    e.used_any = True
    prog.add(e)


def _gen_function(prog, rng, idx):
    name = f"fn{idx}"
    hard, soft = set(), set()
    recs = prog.names(("struct", "union", "typedef", "inst_typedef"))
    params = []
    for k in range(rng.below(4)):
        if recs and rng.chance(600):
            t = rng.pick(recs)
            soft.add(t)
            params.append(f"{prog.spell(t)}* a{k}")
        else:
            params.append(f"{rng.pick(C_PRIMS)} a{k}")
    ret = "void"
    if recs and rng.chance(300):
        t = rng.pick(recs)
        soft.add(t)
        ret = f"{prog.spell(t)}*"
    prog.add(Entity(name, "function", f"{ret} {name}({', '.join(params) or 'void'});", hard, soft))


INNER_NAMES = ["Level", "Kind", "Mode"]


def _gen_namespace(prog, rng, idx):
    """A namespace with a few self-contained declarations whose names are drawn
    from a small pool, so that different namespaces reuse a name for different
    kinds of things (an integer typedef here, an enum there)."""
    name = f"ns{idx}"
    body = []
    for inner in rng.sample(INNER_NAMES, 1 + rng.below(2)):
        r = rng.below(4)
        if r == 0:
            body.append(f"    typedef {rng.pick(['unsigned', 'int', 'short'])} {inner};")
        elif r == 1:
            body.append(f"    enum {inner} {{ {inner}_{idx}_a, {inner}_{idx}_b = 4 }};")
        elif r == 2:
            body.append(f"    struct {inner} {{ int v; {rng.pick(C_PRIMS)} w; }};")
        else:
            body.append(f"    enum {inner} : short {{ {inner}_{idx}_x }};\n    typedef {inner} {inner}_alias{idx};")
    body.append(f"    struct In{idx} {{ int i{idx}; }};")
    prog.add(Entity(name, "namespace", f"namespace {name} {{\n" + "\n".join(body) + "\n}"))


def _gen_var(prog, rng, idx):
    """A non-defining variable declaration: the one place where a type may be
    met by the parser before (or after) its definition at top level."""
    name = f"g{idx}"
    recs = prog.names(("struct", "union", "typedef", "inst_typedef"))
    if recs and rng.chance(750):
        t = rng.pick(recs)
        form = rng.below(3)
        if form == 0:
            prog.add(Entity(name, "var", f"extern {prog.spell(t)} {name};", soft={t}))
        elif form == 1:
            prog.add(Entity(name, "var", f"extern {prog.spell(t)}* {name};", soft={t}))
        elif prog.lang == "c":
            # C wants a complete element type even for an extern array
            prog.add(Entity(name, "var", f"extern {prog.spell(t)} {name}[];", hard=set(prog.by_name[t].complete)))
        else:
            prog.add(Entity(name, "var", f"extern {prog.spell(t)} {name}[];", soft={t}))
    else:
        prog.add(Entity(name, "var", f"extern const {rng.pick(C_PRIMS)} {name};"))


def _gen_enum(prog, rng, idx):
    name = f"E{idx}"
    vals = ", ".join(f"{name}_v{k} = {k * 3}" for k in range(1 + rng.below(3)))
    if prog.lang == "c":
        prog.add(Entity(name, "enum", f"enum {name} {{ {vals} }};"))
    else:
        prog.add(Entity(name, "enum", f"enum {name} {{ {vals} }};"))


def _gen_flags(prog, rng):
    flags = ["--formatter=none", "--disable-header-comment"]
    for f, p in [("--with-derive-default", 700), ("--with-derive-hash", 700),
                 ("--with-derive-partialeq", 700), ("--with-derive-eq", 600),
                 ("--with-derive-partialord", 500), ("--with-derive-ord", 500),
                 ("--impl-debug", 200), ("--impl-partialeq", 200),
                 ("--no-layout-tests", 100), ("--vtable-generation", 300),
                 ("--enable-cxx-namespaces", 450 if prog.names(("namespace",)) else 100), ("--no-derive-copy", 60),
                 ("--no-derive-debug", 60)]:
        if rng.chance(p):
            flags.append(f)
    recs = prog.names(("struct", "union", "template"))
    if recs and rng.chance(300):
        flags += ["--blocklist-type", rng.pick(recs)]
        # the library-only callback that tells bindgen which traits a
        # block-listed type implements (the only source of `Manually` for
        # PartialEq); the driver answers as a fixed function of the name
        prog.callbacks = rng.chance(700)
    if recs and rng.chance(250):
        flags += ["--opaque-type", rng.pick(recs)]
    if recs and rng.chance(250):
        for t in rng.sample(recs, 1 + rng.below(2)):
            flags += ["--allowlist-type", t]
        fns = prog.names(("function",))
        if fns and rng.chance(500):
            flags += ["--allowlist-function", rng.pick(fns)]
        if rng.chance(120):
            flags.append("--no-recursive-allowlist")
    if recs and rng.chance(80):
        flags += ["--no-copy", rng.pick(recs)]
    if recs and rng.chance(80):
        flags += ["--no-partialeq", rng.pick(recs)]
    flags.append("--")
    if prog.lang == "c++":
        flags += ["-x", "c++", "-std=c++14"]
    else:
        flags += ["-x", "c", "-std=c11"]
    prog.flags = flags


# ---------------------------------------------------------------- orders

def _needs_fwd(prog):
    """Entities whose forward declaration is required in every order: those on
    a cycle of soft edges (A has B*, B has A*)."""
    need = set()
    # an entity X needs a fwd iff some entity that X (transitively, via hard or
    # soft deps) depends on softly depends on X
    deps = {e.name: (e.hard | e.soft) for e in prog.entities}

    def reach(a):
        seen, stack = set(), [a]
        while stack:
            x = stack.pop()
            for y in deps.get(x, ()):
                if y not in seen:
                    seen.add(y)
                    stack.append(y)
        return seen

    for e in prog.entities:
        r = reach(e.name)
        for y in r:
            if e.name in deps.get(y, ()):  # y depends on e, and e reaches y: cycle
                if e.name in prog.by_name[y].soft and prog.by_name[e.name].fwd:
                    need.add(e.name)
    return need


def items_and_constraints(prog, with_fwd):
    """Items are ('def', name) and ('fwd', name). Returns (items, before) where
    before[item] is the set of items that must precede it."""
    items = []
    for e in prog.entities:
        if e.name in with_fwd:
            items.append(("fwd", e.name))
        items.append(("def", e.name))
    before = {it: set() for it in items}
    for e in prog.entities:
        d = ("def", e.name)
        for h in e.hard:
            before[d].add(("def", h))
        for s in e.soft:
            if s in with_fwd:
                before[d].add(("fwd", s))
            else:
                before[d].add(("def", s))
    return items, before


def all_linear_extensions(items, before, limit):
    out = []

    def rec(prefix, placed, remaining):
        if len(out) >= limit:
            return
        if not remaining:
            out.append(list(prefix))
            return
        for it in remaining:
            if before[it] <= placed:
                prefix.append(it)
                placed.add(it)
                rec(prefix, placed, [r for r in remaining if r != it])
                placed.discard(it)
                prefix.pop()

    rec([], set(), list(items))
    return out


def random_linear_extension(rng, items, before):
    placed, order = set(), []
    remaining = list(items)
    while remaining:
        ready = [it for it in remaining if before[it] <= placed]
        if not ready:
            return None
        it = rng.pick(ready)
        order.append(it)
        placed.add(it)
        remaining.remove(it)
    return order


def orders(prog, rng, max_orders, exhaustive_upto=6):
    """Valid declaration orders: all of them when there are <= exhaustive_upto
    top-level items (and they fit in max_orders), seeded samples above. The first order is
    always the generation order without optional forward declarations."""
    need = _needs_fwd(prog)
    result = []
    seen = set()

    def push(o):
        key = tuple(o)
        if key not in seen:
            seen.add(key)
            result.append(o)

    items0, before0 = items_and_constraints(prog, need)
    base = []
    placed = set()
    # canonical: generation order, fwd right before first need
    base = random_linear_extension(_First(), items0, before0)
    if base is None:
        return [], False
    push(base)
    exhaustive = False
    if len(items0) <= exhaustive_upto:
        # <= 6 top-level declarations: all orders (at most 720) when the budget allows
        cap = max_orders if max_orders < 24 else 720
        ext = all_linear_extensions(items0, before0, cap + 1)
        if len(ext) <= cap:
            exhaustive = True
            for o in ext:
                push(o)
            return result, exhaustive
    optional = [e.name for e in prog.entities if e.fwd and e.name not in need]
    tries = 0
    while len(result) < max_orders and tries < max_orders * 6:
        tries += 1
        extra = {n for n in optional if rng.chance(300)}
        items, before = items_and_constraints(prog, need | extra)
        o = random_linear_extension(rng, items, before)
        if o is not None:
            push(o)
    return result, exhaustive


class _First:
    def pick(self, xs):
        return xs[0]


def render(prog, order):
    out = []
    for kind, name in order:
        e = prog.by_name[name]
        out.append(e.fwd if kind == "fwd" else e.defn)
    return "\n".join(out) + "\n"


def header_name(prog):
    return "gen.hpp" if prog.lang == "c++" else "gen.h"
