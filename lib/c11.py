"""C11 — output is a pure function of inputs across processes, repeats and
threads. History/thread simulation (DESIGN.md section 4)."""
import concurrent.futures
import json
import os
import shutil
import subprocess
import time

import gen_decls
from common import (BVSIM, HarnessError, NCPU, Outcome, Rng, SHIM, corpus_jobs, fp, log, run_requests)

SHIM_ENV = {"LD_PRELOAD": SHIM, "BVSIM_GETRANDOM_SEED": "1"}
OBS_KEYS = ("kind", "fp", "cb_fp", "cb_n", "side_fp", "side_n")


def obs_of(r):
    return {k: r.get(k) for k in OBS_KEYS}


def job_key(j):
    if "key" in j:
        return j["key"]
    return fp(json.dumps({k: j.get(k) for k in ("header", "flags", "corpus", "callbacks", "inline")}, sort_keys=True))


# ---------------------------------------------------------------- job pool

SPECIAL_HEADERS = {
    "static_fns.h": "static inline int twice(int x) { return 2 * x; }\nstatic inline long add(long a, long b) { return a + b; }\n"
                    "struct P { int a; };\nstatic inline int get(struct P* p) { return p->a; }\n",
    "macros.h": "#define A_INT 42\n#define A_STR \"hello\"\n#define SHIFTED (1u << 12)\n#define SZ ((int)sizeof(long) * 3)\n"
                "#define NEG (-(int)sizeof(char))\n#define CAST ((unsigned char)300)\nstruct M { int m[A_INT]; };\n",
    "macros2.h": "#define B_ONE ((int)sizeof(short) + 40)\n#define B_TWO ((unsigned long)7 << 3)\n#define B_STR \"b\"\nstruct N { char n[8]; };\n",
    "multi_abi.h": "void plain(int);\nvoid __attribute__((stdcall)) std_call(int);\nvoid __attribute__((fastcall)) fast_call(int);\n"
                   "void plain2(long);\nvoid __attribute__((stdcall)) std_call2(long);\nint __attribute__((vectorcall)) vec_call(int);\n"
                   "void __attribute__((ms_abi)) ms(int);\nvoid plain3(char);\n",
    "sys_c.h": "#include <stdlib.h>\n#include <stdint.h>\nstruct SysC { size_t n; uint16_t w; };\n",
    "sys_cpp.hpp": "#include <cstdlib>\n#include <cstdint>\nstruct SysCpp { std::size_t n; std::uint8_t b; };\n",
    "has_feature.h": "#if __has_include(<demo_feature.h>)\n#include <demo_feature.h>\nstruct HasFeature { feature_t f; };\n#else\nstruct NoFeature { int n; };\n#endif\n#include <stddef.h>\nstruct Sz { size_t s; };\n",
    "featdir/demo_feature.h": "typedef long feature_t;\n",
    "pointers.h": "struct Ptrs { void* p; long l; void (*f)(void*); unsigned long ul; };\nlong takes(long a, void* b);\n",
    "static_fn_small.h": "static inline int one(void) { return 1; }\n",
    "enums.h": "enum Color { RED, GREEN = 5, BLUE };\nenum Cold { ICE, SNOW };\nenum Other { X = 1, Y = 2 };\nstruct HasEnums { enum Color c; enum Cold d; enum Other o; };\n",
    "syntax_error.h": "struct Broken { int a; \nint oops(;\n",
    "includes.h": "#include \"inc1.h\"\n#ifndef SKIP_SECOND\n#include \"inc2.h\"\nstruct Top { struct I1 a; struct I2 b; };\n#else\nstruct Top { struct I1 a; };\n#endif\n",
    "inc1.h": "#pragma once\nstruct I1 { int x; };\n",
    "inc2.h": "#include \"inc1.h\"\nstruct I2 { struct I1 i; double y; };\n",
    "many_types.hpp": "".join(f"template <typename T> struct W{k} {{ T v; W{k}* n; }};\nstruct S{k} {{ W{k}<int> a; W{k}<S{k}*> b; float f{k}; }};\n"
                              f"namespace ns{k} {{ struct In {{ S{k} s; }}; enum E {{ A{k}, B{k} }}; }}\n" for k in range(12)),
}


def build_pool(seed, scratch, tier):
    """Jobs with their descriptions; each job is self-contained."""
    d = os.path.join(scratch, "special")
    os.makedirs(d, exist_ok=True)
    for name, text in SPECIAL_HEADERS.items():
        os.makedirs(os.path.dirname(os.path.join(d, name)), exist_ok=True)
        with open(os.path.join(d, name), "w") as f:
            f.write(text)
    base = ["--formatter=none", "--disable-header-comment"]
    pool = []

    def add(name, header, flags, **kw):
        j = {"id": name, "header": os.path.join(d, header) if not header.startswith("/") else header,
             "flags": base + flags, "callbacks": True}
        j.update(kw)
        pool.append(j)

    add("static-fns-wrap", "static_fns.h", ["--experimental", "--wrap-static-fns", "--wrap-static-fns-path", "@OUT@/wrap"], outdir="@INST@")
    add("static-fns-wrap-suffix", "static_fns.h", ["--experimental", "--wrap-static-fns", "--wrap-static-fns-path", "@OUT@/w2",
                                                  "--wrap-static-fns-suffix", "_w"], outdir="@INST@")
    add("depfile", "includes.h", ["--depfile", "@OUT@/out.d", "--output", "@OUT@/out.rs"], outdir="@INST@")
    add("depfile-b", "inc2.h", ["--depfile", "@OUT@/b.d", "--output", "@OUT@/b.rs"], outdir="@INST@")
    for nm, hdr in (("a", "includes.h"), ("b", "inc2.h"), ("c", "macros.h"), ("d", "static_fns.h")):
        add(f"depfile-shared-dir-{nm}", hdr, ["--depfile", f"@SHARED@/{nm}.d", "--output", f"@SHARED@/{nm}.rs"],
            watch=[f"@SHARED@/{nm}.d"])
    # different wrapper files in one directory, written by overlapping generations
    add("static-fns-wrap-shared-dir-a", "static_fns.h", ["--experimental", "--wrap-static-fns", "--wrap-static-fns-path", "@SHARED@/wa"],
        watch=["@SHARED@/wa.c"])
    add("static-fns-wrap-shared-dir-b", "static_fn_small.h", ["--experimental", "--wrap-static-fns", "--wrap-static-fns-path", "@SHARED@/wb"],
        watch=["@SHARED@/wb.c"])
    # different include-search-relevant flags (the clang executable probe must not be shared wrongly)
    add("sys-c-isystem", "has_feature.h", ["--", "-isystem", os.path.join(d, "featdir")])
    add("sys-c-no-isystem", "has_feature.h", [])
    add("sys-c-nostdinc", "has_feature.h", ["--", "-nostdinc"])
    # the same depfile path and output name written by successive, different generations
    add("depfile-same-path-1", "includes.h", ["--depfile", "@SHARED@/same.d", "--output", "@SHARED@/same.rs"],
        watch=["@SHARED@/same.d"], history_only=True)
    add("depfile-same-path-2", "inc2.h", ["--depfile", "@SHARED@/same.d", "--output", "@SHARED@/same.rs"],
        watch=["@SHARED@/same.d"], history_only=True)
    add("depfile-same-path-3", "includes.h", ["--depfile", "@SHARED@/same.d", "--output", "@SHARED@/same.rs", "--", "-DSKIP_SECOND=1"],
        watch=["@SHARED@/same.d"], history_only=True)
    # the same wrapper path written by successive generations (history tier only:
    # two concurrent writers of one path are the caller's own race)
    add("static-fns-wrap-shared-path-big", "static_fns.h", ["--experimental", "--wrap-static-fns", "--wrap-static-fns-path", "@SHARED@/wrap"],
        watch=["@SHARED@/wrap.c"], history_only=True)
    add("static-fns-wrap-shared-path-small", "static_fn_small.h", ["--experimental", "--wrap-static-fns", "--wrap-static-fns-path", "@SHARED@/wrap"],
        watch=["@SHARED@/wrap.c"], history_only=True)
    # options whose patterns overlap: the winner must not depend on map order
    add("override-abi-overlap", "multi_abi.h", ["--override-abi", ".*=C-unwind", "--override-abi", "plain.*=system",
                                                "--override-abi", "plain2=C", "--", "--target=x86_64-unknown-linux-gnu"])
    add("enum-style-overlap", "enums.h", ["--rustified-enum", "Co.*", "--constified-enum-module", ".*lor", "--bitfield-enum", "Color",
                                          "--newtype-enum", "C.*"])
    add("type-options-overlap", "many_types.hpp", ["--opaque-type", "W1.*", "--blocklist-type", "W1", "--no-copy", "S.*", "--no-debug", "S1.*",
                                                   "--must-use-type", "S.*", "--", "-x", "c++", "-std=c++14"])
    # the target given in every spelling clang accepts (pointer width must follow it)
    add("target-host", "pointers.h", [])
    add("target-two-arg-i686", "pointers.h", ["--", "-target", "i686-unknown-linux-gnu"])
    add("target-eq-i686", "pointers.h", ["--", "--target=i686-unknown-linux-gnu"])
    add("target-two-arg-aarch64", "pointers.h", ["--", "-target", "aarch64-unknown-linux-gnu"])
    # system headers: the include-path detection result of one generation must not leak into the next
    add("sys-c", "sys_c.h", [])
    add("sys-cpp", "sys_cpp.hpp", [])  # C++ by file extension only: same clang flags as sys-c
    add("sys-cpp-std", "sys_cpp.hpp", ["--", "-std=c++14"])
    add("sys-cpp-no-detect", "sys_cpp.hpp", ["--no-include-path-detection", "--", "-x", "c++", "-std=c++14"])
    add("macros", "macros.h", [])
    add("macros-fallback-own-dir", "macros.h", ["--clang-macro-fallback", "--clang-macro-fallback-build-dir", "@OUT@"], outdir="@INST@")
    add("macros2-fallback-own-dir", "macros2.h", ["--clang-macro-fallback", "--clang-macro-fallback-build-dir", "@OUT@"], outdir="@INST@")
    add("macros-fallback-default-dir", "macros.h", ["--clang-macro-fallback"])
    add("macros2-fallback-default-dir", "macros2.h", ["--clang-macro-fallback"])
    add("multi-abi-merge", "multi_abi.h", ["--merge-extern-blocks", "--", "--target=i686-pc-windows-msvc"])
    add("multi-abi-merge-sort", "multi_abi.h", ["--merge-extern-blocks", "--sort-semantically", "--", "--target=i686-pc-windows-msvc"])
    add("multi-abi-plain", "multi_abi.h", ["--", "--target=i686-pc-windows-msvc"])
    add("syntax-error", "syntax_error.h", [])
    add("missing-header", "does_not_exist.h", [])
    add("includes", "includes.h", [])
    add("includes-use-core", "includes.h", ["--use-core"])
    add("includes-ctypes", "includes.h", ["--ctypes-prefix", "libc"])
    add("includes-core-new-target", "includes.h", ["--use-core", "--rust-target", "1.85"])
    add("includes-old-target", "includes.h", ["--rust-target", "1.59"])
    for flags, nm in (([], "plain"), (["--enable-cxx-namespaces"], "ns"), (["--with-derive-hash", "--with-derive-eq", "--with-derive-partialeq"], "derive"),
                      (["--sort-semantically", "--merge-extern-blocks"], "sort"), (["--opaque-type", "W3"], "opaque"),
                      (["--default-enum-style", "rust", "--no-layout-tests"], "enum")):
        add(f"many-types-{nm}", "many_types.hpp", flags + ["--", "-x", "c++", "-std=c++14"])
    # generated declaration graphs
    for i in range(12 if tier == "quick" else 60):
        rng = Rng.for_case(seed, "c11-graph", i)
        prog = gen_decls.gen_program(rng, max_entities=10)
        ords, _ = gen_decls.orders(prog, rng, 1)
        if not ords:
            continue
        name = f"g{i}." + ("hpp" if prog.lang == "c++" else "h")
        with open(os.path.join(d, name), "w") as f:
            f.write(gen_decls.render(prog, ords[0]))
        add(f"graph-{i}", name, [x for x in prog.flags if x not in base], inline_note="generated")
    # repository headers with their own flags
    cj = corpus_jobs()
    rng = Rng.for_case(seed, "c11-corpus", 0)
    for j in rng.sample(cj, 90 if tier == "quick" else len(cj)):
        j = dict(j, callbacks=True, id="corpus:" + j["id"])
        pool.append(j)
    for j in pool:
        j["key"] = job_key(j)
    return pool


# ---------------------------------------------------------------- single-job processes

def run_one(req, workdir, tag, env_extra=None, no_aslr=False, timeout=300, cwd=None):
    reqf = os.path.join(workdir, f"{tag}.req.json")
    with open(reqf, "w") as f:
        json.dump(req, f)
    env = dict(os.environ)
    env["LD_PRELOAD"] = SHIM
    env["RUST_BACKTRACE"] = "0"
    if env_extra:
        env.update(env_extra)
    cmd = [BVSIM, "one", reqf]
    if no_aslr:
        cmd = ["setarch", "-R"] + cmd
    own_cwd = cwd is None
    if own_cwd:
        cwd = os.path.join(workdir, f"{tag}.cwd")
        os.makedirs(cwd, exist_ok=True)
    try:
        p = subprocess.run(cmd, env=env, cwd=cwd, stdout=subprocess.PIPE, stderr=subprocess.DEVNULL, timeout=timeout)
        obs = None
        for line in reversed(p.stdout.decode("utf-8", "replace").strip().splitlines()):
            try:
                obs = json.loads(line)
                break
            except json.JSONDecodeError:
                continue
        if obs is None:
            obs = {"kind": "crash", "status": p.returncode}
    except subprocess.TimeoutExpired:
        obs = {"kind": "timeout"}
    if own_cwd:
        shutil.rmtree(cwd, ignore_errors=True)
    os.remove(reqf)
    return obs


ENV_VIEWS = [
    {},
    {"TARGET": "aarch64-unknown-linux-gnu"},
    {"BINDGEN_EXTRA_CLANG_ARGS": "-DBVSIM_EXTRA=1 -Wno-everything"},
    {"TARGET": "x86_64-unknown-linux-gnu", "BINDGEN_EXTRA_CLANG_ARGS_x86_64_unknown_linux_gnu": "-DPER_TARGET=2"},
]


def build_cli():
    """The real command-line binary, built from /repo's working tree without
    the hooks (into /verif/target/cli so /repo is left alone)."""
    from common import TARGET
    tdir = os.path.join(TARGET, "cli")
    env = dict(os.environ, CARGO_NET_OFFLINE="true")
    env.pop("RUSTFLAGS", None)
    p = subprocess.run(["cargo", "build", "--offline", "-p", "bindgen-cli", "--target-dir", tdir],
                       cwd="/repo", env=env, stdout=subprocess.PIPE, stderr=subprocess.STDOUT, text=True)
    exe = os.path.join(tdir, "debug", "bindgen")
    if p.returncode != 0 or not os.path.exists(exe):
        raise HarnessError("bindgen-cli build failed: " + p.stdout[-2000:])
    return exe


def cli_args(job):
    return ([job["header"]] if job.get("header") else []) + list(job["flags"])


def run_cli(exe, job, workdir, tag, env_extra, no_aslr):
    import hashlib
    env = dict(os.environ)
    env.update(env_extra or {})
    cmd = [exe] + cli_args(job)
    if no_aslr:
        cmd = ["setarch", "-R"] + cmd
    cwd = os.path.join(workdir, f"{tag}.cwd")
    os.makedirs(cwd, exist_ok=True)
    try:
        p = subprocess.run(cmd, env=env, cwd=cwd, stdout=subprocess.PIPE, stderr=subprocess.DEVNULL, timeout=300)
        r = {"status": p.returncode, "sha": hashlib.sha256(p.stdout).hexdigest()[:32], "len": len(p.stdout)}
    except subprocess.TimeoutExpired:
        r = {"status": "timeout"}
    shutil.rmtree(cwd, ignore_errors=True)
    return r


def relative_runs(scratch, work):
    """The same relative command line run in three directories that hold
    identical trees."""
    rel_job = {"id": "relative-paths", "header": "include/api.h", "callbacks": True,
               "flags": ["--formatter=none", "--disable-header-comment", "--depfile", "out.d", "--output", "out.rs",
                         "--", "-Iinclude/../common"],
               "watch": ["out.d"]}
    rel_obs = []
    for name in ("relA", "some/deeper/relB", "relC"):
        d = os.path.join(scratch, name)
        os.makedirs(os.path.join(d, "include"), exist_ok=True)
        os.makedirs(os.path.join(d, "common"), exist_ok=True)
        with open(os.path.join(d, "include", "api.h"), "w") as f:
            f.write('#include "../common/types.h"\n#include <shared.h>\nstruct Api { id_t id; shared_t s; };\n')
        with open(os.path.join(d, "common", "types.h"), "w") as f:
            f.write("typedef unsigned long id_t;\n")
        with open(os.path.join(d, "common", "shared.h"), "w") as f:
            f.write("typedef short shared_t;\n")
        rel_obs.append(run_one({"op": "gen", "job": rel_job}, work, "rel-" + name.replace("/", "_"),
                               {"BVSIM_GETRANDOM_SEED": "7"}, cwd=d))
    return rel_job, rel_obs


def instantiate(job, scratch, inst, shared=None):
    """Give a job instance its own output directory; `@SHARED@` is a directory
    shared by all generations of one scenario (as in a `make -j` build that
    writes several depfiles into one directory)."""
    j = dict(job)
    if j.get("outdir") == "@INST@":
        j["outdir"] = os.path.join(scratch, "out", inst)
    sh = shared or os.path.join(scratch, "shared", inst)
    if any("@SHARED@" in f for f in j["flags"]):
        os.makedirs(sh, exist_ok=True)
        j["flags"] = [f.replace("@SHARED@", sh) for f in j["flags"]]
        j["watch"] = [w.replace("@SHARED@", sh) for w in j.get("watch", [])]
    return j


def reference_table(pool, scratch):
    """job -> observation, each job alone in a fresh process (no scheduler, salt
    0, fixed hash seed)."""
    work = os.path.join(scratch, "ref")
    os.makedirs(work, exist_ok=True)
    with concurrent.futures.ThreadPoolExecutor(max_workers=NCPU) as ex:
        futs = [ex.submit(run_one, {"op": "gen", "job": instantiate(j, scratch, f"ref{i}")}, work, f"ref{i}",
                          {"BVSIM_GETRANDOM_SEED": "12345"}) for i, j in enumerate(pool)]
        res = [f.result() for f in futs]
    return {job_key(j): r for j, r in zip(pool, res)}


def family(job):
    return job["id"].split(":")[0] if job["id"].startswith("corpus:") else job["id"].rsplit("-", 1)[0] if job["id"].startswith("graph-") else job["id"]


def work_burst(scratch):
    d = os.path.join(scratch, "burst-ref")
    os.makedirs(d, exist_ok=True)
    return d


def compare(job, obs, ref):
    """None if the observation equals the reference entry, else the first
    differing component."""
    for k in OBS_KEYS:
        if obs.get(k) != ref.get(k):
            return {"kind": "result-kind", "fp": "bindings", "cb_fp": "callback-sequence", "cb_n": "callback-sequence",
                    "side_fp": "side-output", "side_n": "side-output"}[k]
    return None


def scenario_fingerprint(resp):
    return json.dumps([[[obs_of(o) for o in t] for t in resp.get("results", [])],
                       (resp.get("sched") or {}).get("fingerprint"), (resp.get("sched") or {}).get("trace"),
                       (resp.get("sched") or {}).get("decisions")], sort_keys=True)


def selfcheck(scns, cwd, out=None):
    """Determinism: the same scenario list, run twice in fresh single workers
    (identical process histories), must give identical interleaving
    fingerprints, decision traces and observations. Run on many workers (other
    process histories) only the observations have to agree: a cache that is a
    pure function of the environment may legally change which yield points a
    later generation passes."""
    a = run_requests(scns, workers=1, timeout=900, cwd=os.path.join(cwd, "self-a"), env=SHIM_ENV)
    b = run_requests(scns, workers=1, timeout=900, cwd=os.path.join(cwd, "self-b"), env=SHIM_ENV)
    c = run_requests(scns, workers=min(16, len(scns)), timeout=900, cwd=os.path.join(cwd, "self-c"), env=SHIM_ENV)
    # a scenario the driver had to release (lock held across a yield point, see the
    # watchdog in driver/src/c11.rs) ran freely and has no schedule to compare
    rel = lambda r: bool((r.get("sched") or {}).get("deadlock_released"))
    bad = [i for i, (x, y) in enumerate(zip(a, b)) if not (rel(x) or rel(y)) and scenario_fingerprint(x) != scenario_fingerprint(y)]
    obs = lambda r: json.dumps([[obs_of(o) for o in t] for t in r.get("results", [])], sort_keys=True)
    hist = [i for i, (x, y) in enumerate(zip(a, c)) if obs(x) != obs(y)]
    if bad and out is not None:
        out.harness_errors.append(f"determinism self-check: {len(bad)} of {len(scns)} thread scenarios differ "
                                  f"between two identical single-worker runs (first: {bad[0]})")
    return len(scns), len(bad), len(hist)


def minimise_scenario(scn, doc_thread, job_id, expected, cwd):
    """Shrink a failing thread scenario: drop threads and jobs that are not
    needed, then context switches, re-running under the forced trace / seed each
    time; the same job must still differ from its reference entry."""
    def fails(s):
        r = run_requests([s], workers=1, timeout=900, cwd=cwd, env=SHIM_ENV)[0]
        for t, results in zip(s["threads"], r.get("results", [])):
            for j, o in zip(t, results):
                if j["id"] == job_id and obs_of(o) != expected:
                    return True
        return False

    base = dict(scn, sched={k: v for k, v in (scn.get("sched") or {}).items() if k != "forced"} or None)
    cur = base
    budget = 25
    changed = True
    while changed and budget > 0:
        changed = False
        for t in range(len(cur["threads"])):
            if len(cur["threads"]) <= 2:
                break
            cand = dict(cur, threads=cur["threads"][:t] + cur["threads"][t + 1:])
            if not any(j["id"] == job_id for th in cand["threads"] for j in th):
                continue
            budget -= 1
            if fails(cand):
                cur, changed = cand, True
                break
            if budget <= 0:
                break
        if changed:
            continue
        for t in range(len(cur["threads"])):
            for k in range(len(cur["threads"][t])):
                if len(cur["threads"][t]) <= 1 or cur["threads"][t][k]["id"] == job_id:
                    continue
                th = cur["threads"][t][:k] + cur["threads"][t][k + 1:]
                cand = dict(cur, threads=cur["threads"][:t] + [th] + cur["threads"][t + 1:])
                budget -= 1
                if fails(cand):
                    cur, changed = cand, True
                    break
                if budget <= 0:
                    break
            if changed or budget <= 0:
                break
    return cur if cur is not base else None


# ---------------------------------------------------------------- the check

def run(tier, seed):
    out = Outcome("C11", tier, seed, "exploration")
    quick = tier == "quick"
    scratch = "/var/tmp/bvsim-c11-%d" % os.getpid()
    shutil.rmtree(scratch, ignore_errors=True)
    os.makedirs(scratch)
    stats = {"generations": 0, "history_scenarios": 0, "thread_scenarios": 0, "process_runs": 0, "free_running": 0,
             "switches": 0, "yield_events": 0, "mismatches": 0, "jobs_under_worklist_perturbation": 0}
    fingerprints = set()
    minimised = [0]
    labels = {}
    samples = []
    try:
        cwd = os.path.join(scratch, "cwd")
        os.makedirs(cwd)
        pool = build_pool(seed, scratch, tier)
        log(f"[C11] job pool: {len(pool)} jobs; building the reference table (one fresh process per job)")
        table = reference_table(pool, scratch)
        kinds = {}
        for j in pool:
            k = table[job_key(j)].get("kind")
            kinds[k] = kinds.get(k, 0) + 1
        log(f"[C11] reference outcomes: {kinds}")
        usable = [j for j in pool if table[job_key(j)].get("kind") in ("ok", "err")]
        fast = [j for j in usable if not j["id"].startswith("corpus:") or os.path.getsize(j["header"]) < 20000]
        stats["distinct_jobs"] = len(usable)
        thread_ok = [j for j in fast if not j.get("history_only")]
        contention_groups = [g for g in (
            [j for j in fast if j["id"].startswith("depfile-shared-dir")],
            [j for j in fast if j["id"].startswith("static-fns-wrap-shared-dir")],
            [j for j in fast if j["id"].startswith("sys-c")],
            [j for j in fast if "fallback-default-dir" in j["id"] or
             ("--clang-macro-fallback" in j["flags"] and "--clang-macro-fallback-build-dir" not in j["flags"])],
        ) if len(g) >= 2]

        def check_results(scn, resp, tier_name):
            """Compare every job of a scenario with the table."""
            if resp.get("kind") in ("crash", "timeout") or "results" not in resp:
                sig = {"class": "scenario-" + str(resp.get("kind", "error")), "tier": tier_name,
                       "families": sorted({family(j) for t in scn["threads"] for j in t})[:4]}
                out.violation(sig, {"engine": "c11", "kind": "scenario", "scenario": scn, "observed": resp})
                return
            if (resp.get("sched") or {}).get("forced_mismatch"):
                out.harness_errors.append("forced mismatch in random mode")
            if (resp.get("sched") or {}).get("deadlock_released"):
                # the running actor blocked on something a parked actor holds (a lock
                # taken across a yield point): the driver let every actor run freely;
                # the results below are still judged, only the schedule is not replayable
                stats["sched_deadlock_released"] = stats.get("sched_deadlock_released", 0) + 1
            for t, (jobs, results) in enumerate(zip(scn["threads"], resp["results"])):
                if len(results) != len(jobs):
                    out.violation({"class": "thread-died", "tier": tier_name},
                                  {"engine": "c11", "kind": "scenario", "scenario": scn, "observed": resp})
                    continue
                for j, r in zip(jobs, results):
                    stats["generations"] += 1
                    ref = table[job_key(j)]
                    what = compare(j, r, ref)
                    if what:
                        stats["mismatches"] += 1
                        others = sorted({family(x) for tt in scn["threads"] for x in tt if x is not j})
                        sig = {"class": what + "-differs", "tier": tier_name, "job": family(j),
                               "with_fallback_neighbour": any("fallback-default-dir" in o for o in others)}
                        doc = {"engine": "c11", "kind": "scenario", "scenario": dict(scn), "thread": t,
                               "job_id": j["id"], "expected": obs_of(ref), "observed": obs_of(r)}
                        if resp.get("sched"):
                            doc["scenario"]["sched"] = dict(scn.get("sched") or {}, forced=resp["sched"]["trace"])
                            from common import match_known
                            if minimised[0] < 3 and match_known("C11", sig, out.known) is None and \
                                    all(s0 != sig for s0, _ in out.violations):
                                minimised[0] += 1
                                m = minimise_scenario(scn, t, j["id"], obs_of(ref), os.path.join(cwd, "min"))
                                if m is not None:
                                    doc["original_scenario"] = doc["scenario"]
                                    doc["scenario"] = m
                                    doc["thread"] = next(i for i, th in enumerate(m["threads"])
                                                         if any(x["id"] == j["id"] for x in th))
                        out.violation(sig, doc)
            s = resp.get("sched")
            if s:
                fingerprints.add(s["fingerprint"])
                stats["switches"] += s["switches"]
                stats["yield_events"] += s["events"]
                for k, v in s["labels"].items():
                    labels[k] = labels.get(k, 0) + v

        inst = [0]

        shared_dir = [None]

        def new_scenario():
            inst[0] += 1
            shared_dir[0] = os.path.join(scratch, "shared", f"s{inst[0]}")

        def mk(job, perturb_rng=None):
            inst[0] += 1
            j = instantiate(job, scratch, f"i{inst[0]}", shared_dir[0])
            if perturb_rng is not None and perturb_rng.chance(150):
                j = dict(j, fix={"seed": perturb_rng.next(), "stutter": 150, "dup": 200, "reorder": 600, "dedup": 300})
                stats["jobs_under_worklist_perturbation"] += 1
            return j

        # ---------------------------------------------------- histories in one process, one thread
        n_hist = 60 if quick else 1500
        scns = []
        for i in range(n_hist):
            rng = Rng.for_case(seed, "c11-history", i)
            new_scenario()
            k = 1 + rng.below(12 if quick else 50)
            jobs = []
            anchor = rng.pick(fast)
            # every other history concentrates on one group of jobs that can leave something
            # behind for each other (same output path, same search-path cache key); the
            # groups take turns so that each is exercised in every run
            focus_groups = [g for g in ([j for j in fast if j["id"].startswith("static-fns-wrap-shared-path")],
                                        [j for j in fast if j["id"].startswith("depfile-same-path")],
                                        [j for j in fast if j["id"].startswith("sys-")],
                                        [j for j in fast if j["id"].startswith("target-")]) if g]
            focus = focus_groups[(i // 2) % len(focus_groups)] if (focus_groups and i % 2 == 1) else None
            for _ in range(k):
                if focus and rng.chance(750):
                    jobs.append(mk(rng.pick(focus), rng))
                else:
                    jobs.append(mk(anchor if rng.chance(300) else rng.pick(fast), rng))
            scns.append({"op": "c11", "threads": [jobs], "sched": None, "salt": rng.next() if rng.chance(500) else 0,
                         "hash_seed": rng.next()})
        res = run_requests(scns, timeout=240, progress=200, cwd=cwd, env=SHIM_ENV)
        for s, r in zip(scns, res):
            stats["history_scenarios"] += 1
            check_results(s, r, "history")
        samples.append({"kind": "history", "jobs": [j["id"] for j in scns[0]["threads"][0]], "salt": scns[0]["salt"]})
        log(f"[C11] histories done: {stats['generations']} generations, {stats['mismatches']} mismatches")

        # ---------------------------------------------------- threads under the deterministic scheduler
        n_thr = 240 if quick else 6000
        scns = []
        for i in range(n_thr):
            rng = Rng.for_case(seed, "c11-threads", i)
            new_scenario()
            nt = 2 + rng.below(7 if quick else 15)
            per = 1 + rng.below(3)
            same = rng.chance(300)
            anchor = rng.pick(thread_ok)
            threads = []
            # a third of the scenarios put generations that can meet on shared
            # files (same output directory, same working directory) side by side
            # every other scenario is a contention scenario; the groups take turns
            group = contention_groups[(i // 2) % len(contention_groups)] if (contention_groups and i % 2 == 1) else None
            for t in range(nt):
                if group:
                    threads.append([mk(rng.pick(group), rng) for _ in range(per)])
                else:
                    threads.append([mk(anchor if (same or rng.chance(200)) else rng.pick(thread_ok), rng) for _ in range(per)])
            sched = {"seed": rng.next(), "switch_permille": rng.pick([20, 100, 300, 700])}
            if rng.chance(300):
                sched["pct_depth"] = 1 + rng.below(4)
                sched["pct_horizon"] = 200 * nt
            scns.append({"op": "c11", "threads": threads, "sched": sched, "salt": rng.next() if rng.chance(500) else 0,
                         "hash_seed": rng.next()})
        res = run_requests(scns, timeout=240, progress=200, cwd=cwd, env=SHIM_ENV)
        for s, r in zip(scns, res):
            stats["thread_scenarios"] += 1
            check_results(s, r, "threads")
        n_self, bad_self, hist_self = selfcheck(scns[:6 if quick else 60], cwd, out)
        stats["determinism_selfcheck"] = {"scenarios_run_three_times": n_self, "differing_between_identical_runs": bad_self,
                                          "observations_differing_across_worker_counts": hist_self}
        log(f"[C11] determinism self-check: {n_self} scenarios, {bad_self} differ between identical runs, "
            f"{hist_self} differ in observations across worker counts")
        samples.append({"kind": "threads", "threads": [[j["id"] for j in t] for t in scns[0]["threads"]],
                        "sched": scns[0]["sched"], "interleaving_fingerprint": (res[0].get("sched") or {}).get("fingerprint")})
        log(f"[C11] thread scenarios done: {stats['generations']} generations, {stats['mismatches']} mismatches")

        # ---------------------------------------------------- separate processes: hash seeds, salts, ASLR
        n_proc = 64 if quick else 2000
        work = os.path.join(scratch, "proc")
        os.makedirs(work, exist_ok=True)
        plist = []
        view_refs = {}
        for i in range(n_proc):
            rng = Rng.for_case(seed, "c11-proc", i)
            j = rng.pick(usable)
            view = rng.below(len(ENV_VIEWS)) if rng.chance(400) else 0
            env = dict(ENV_VIEWS[view], BVSIM_GETRANDOM_SEED=str(rng.next()))
            plist.append((j, env, rng.next() if rng.chance(700) else 0, rng.chance(500), view))
            if view:
                view_refs[(job_key(j), view)] = j
        # references under each non-default environment view (fresh process, fixed hash seed)
        with concurrent.futures.ThreadPoolExecutor(max_workers=NCPU) as ex:
            futs = {k: ex.submit(run_one, {"op": "gen", "job": instantiate(j, scratch, f"vr{n}")}, work, f"vr{n}",
                                 dict(ENV_VIEWS[k[1]], BVSIM_GETRANDOM_SEED="12345"))
                    for n, (k, j) in enumerate(sorted(view_refs.items(), key=lambda kv: kv[0]))}
            view_table = {k: f.result() for k, f in futs.items()}
        stats["environment_views"] = len(ENV_VIEWS)
        with concurrent.futures.ThreadPoolExecutor(max_workers=NCPU) as ex:
            futs = [ex.submit(run_one, {"op": "gen", "job": instantiate(j, scratch, f"p{i}"), "salt": salt}, work, f"p{i}", env, noaslr)
                    for i, (j, env, salt, noaslr, view) in enumerate(plist)]
            pres = [f.result() for f in futs]
        for (j, env, salt, noaslr, view), r in zip(plist, pres):
            stats["process_runs"] += 1
            stats["generations"] += 1
            ref = view_table[(job_key(j), view)] if view else table[job_key(j)]
            what = compare(j, r, ref) if r.get("kind") not in ("crash", "timeout") else "process-" + r["kind"]
            if what:
                stats["mismatches"] += 1
                out.violation({"class": what + "-differs", "tier": "process", "job": family(j), "env_view": view},
                              {"engine": "c11", "kind": "process", "job": j, "env": env, "salt": salt, "no_aslr": noaslr,
                               "expected": obs_of(ref), "observed": obs_of(r)})
        samples.append({"kind": "process", "job": plist[0][0]["id"], "env": plist[0][1], "salt": plist[0][2], "aslr_disabled": plist[0][3]})

        # ---------------------------------------------------- the same relative command line in different directories
        rel_job, rel_obs = relative_runs(scratch, work)
        stats["generations"] += len(rel_obs)
        stats["relative_path_runs"] = len(rel_obs)
        for o in rel_obs[1:]:
            if obs_of(o) != obs_of(rel_obs[0]) or rel_obs[0].get("kind") != "ok":
                stats["mismatches"] += 1
                what = compare(rel_job, o, rel_obs[0]) or "result-kind"
                out.violation({"class": what + "-differs", "tier": "working-directory", "job": "relative-paths"},
                              {"engine": "c11", "kind": "relative", "expected": obs_of(rel_obs[0]), "observed": obs_of(o)})
                break

        # ---------------------------------------------------- the command-line binary, repeatedly
        exe = build_cli()
        cli_jobs = [j for j in usable if not j["id"].startswith("corpus:") and not j.get("outdir") and not j.get("watch")
                    and table[job_key(j)].get("kind") == "ok"]
        n_cli = 3 if quick else 12
        runs = []
        for j in cli_jobs[:12 if quick else len(cli_jobs)]:
            for k in range(n_cli):
                rng = Rng.for_case(seed, "c11-cli-" + j["id"], k)
                runs.append((j, k, rng.chance(500)))
        with concurrent.futures.ThreadPoolExecutor(max_workers=NCPU) as ex:
            futs = [ex.submit(run_cli, exe, j, work, f"cli{i}", {}, noaslr) for i, (j, k, noaslr) in enumerate(runs)]
            cres = [f.result() for f in futs]
        # the library (hooks on) and the binary (hooks off) must print the same text
        import hashlib
        texts = run_requests([{"op": "gen", "job": dict(j, callbacks=False), "want_text": True} for j, k, _ in runs if k == 0],
                             timeout=300, cwd=cwd, env=SHIM_ENV)
        lib_sha = {}
        for (j, k, _), t in zip([r for r in runs if r[1] == 0], texts):
            lib_sha[job_key(j)] = hashlib.sha256((t.get("text") or "").encode()).hexdigest()[:32]
        stats["cli_runs"] = len(runs)
        for (j, k, noaslr), r in zip(runs, cres):
            stats["generations"] += 1
            if r.get("status") != 0 or r.get("sha") != lib_sha.get(job_key(j)):
                stats["mismatches"] += 1
                out.violation({"class": "cli-output-differs", "tier": "cli", "job": family(j)},
                              {"engine": "c11", "kind": "cli", "job": j, "no_aslr": noaslr, "observed": r,
                               "expected_sha": lib_sha.get(job_key(j))})

        # ---------------------------------------------------- parallel bursts: the same job, with a regular expression the
        # process has never seen, on many truly parallel threads at once (races inside code that has no yield point;
        # not replayable, but every thread must still produce the reference output)
        n_burst = 12 if quick else 150
        scns = []
        burst_refs = {}
        burst_base = [j for j in thread_ok if j["id"] in ("many-types-plain", "includes", "macros", "multi-abi-plain")]
        for i in range(n_burst):
            rng = Rng.for_case(seed, "c11-burst", i)
            new_scenario()
            base = rng.pick(burst_base)
            uniq = f"never_matches_{seed}_{i}"
            j = dict(base, id=f"burst-{i}:{base['id']}")
            fl = list(base["flags"])
            k = fl.index("--") if "--" in fl else len(fl)
            j["flags"] = fl[:k] + ["--blocklist-item", uniq, "--allowlist-item", f".*|{uniq}", "--opaque-type", uniq] + fl[k:]
            j["key"] = f"burst-{i}"
            burst_refs[j["key"]] = j
            scns.append({"op": "c11", "threads": [[mk(j)] for _ in range(8 if quick else 16)], "sched": None, "salt": 0,
                         "hash_seed": rng.next()})
        with concurrent.futures.ThreadPoolExecutor(max_workers=NCPU) as ex:
            futs = {k: ex.submit(run_one, {"op": "gen", "job": instantiate(j, scratch, "br" + k)}, work_burst(scratch), "br" + k,
                                 {"BVSIM_GETRANDOM_SEED": "12345"}) for k, j in burst_refs.items()}
            for k, f in futs.items():
                table[k] = f.result()
        res = run_requests(scns, timeout=240, cwd=cwd, env=SHIM_ENV)
        for s, r in zip(scns, res):
            stats["parallel_bursts"] = stats.get("parallel_bursts", 0) + 1
            check_results(s, r, "parallel-burst")

        # ---------------------------------------------------- free-running threads (auxiliary, not replayable)
        if not quick:
            scns = []
            nofb = [j for j in thread_ok if "fallback-default-dir" not in j["id"]]
            for i in range(200):
                rng = Rng.for_case(seed, "c11-free", i)
                new_scenario()
                threads = [[mk(rng.pick(nofb)) for _ in range(3)] for _ in range(16)]
                scns.append({"op": "c11", "threads": threads, "sched": None, "salt": 0})
            res = run_requests(scns, timeout=1800, workers=2, progress=50, cwd=cwd, env=SHIM_ENV)
            for s, r in zip(scns, res):
                stats["free_running"] += 1
                check_results(s, r, "free-running")
    finally:
        shutil.rmtree(scratch, ignore_errors=True)

    stuck = sorted(k for k in EXPECTED_LABELS if labels.get(k, 0) == 0)
    hours = max(1e-9, (time.time() - out.t0) / 3600.0)
    out.coverage = {
        "evaluations": stats["generations"],
        "distinct_nontrivial": len(fingerprints) + stats["history_scenarios"] + stats["process_runs"],
        "rule": "one evaluation = one Builder::generate() compared with the reference table; distinct = distinct "
                "interleaving fingerprints (hash of the (actor, yield label) sequence of a thread scenario) plus the "
                "history scenarios and process runs, each of which is a distinct (job sequence | hash seed, salt, ASLR) "
                "point; a thread scenario is non-trivial when at least one context switch was taken",
        "samples": samples,
        "exhaustive": False,
        "context_switches_taken": stats["switches"],
        "yield_point_events": stats["yield_events"],
        "yield_labels_hit": dict(sorted(labels.items())),
        "yield_labels_never_hit": stuck,
        "stats": stats,
        "runs_per_hour": int(stats["generations"] / hours),
        "simulated_time": "no clock; simulated time is yield-point events",
        "real_vs_stub": {"bindgen": "real", "libclang": "real", "OS threads": "real, released one at a time by the "
                         "seeded scheduler", "getrandom": "stub (shim, seeded)", "Cursor hash": "real + per-run salt"},
    }
    out.assumptions = [
        "environment variables are constant within one process history",
        "FxHash maps keyed by ids/strings are not perturbed: their order is the same in every process",
        "interleavings inside libclang are not controlled (only the free-running tier touches them)",
    ]
    return out.finish()


EXPECTED_LABELS = ["libclang.enter", "libclang.not_loaded", "libclang.before_set_library", "libclang.after_set_library",
                   "generate.before_context", "generate.after_context", "generate.after_parse", "generate.after_codegen",
                   "parse_one", "gen.enter", "gen.before_analyses", "gen.after_analyses", "codegen.item",
                   "codegen.before_depfile", "codegen.before_serialize_items", "codegen.before_postprocessing",
                   "fallback_tu.before_pch_save", "fallback_tu.after_pch_save", "fallback_tu.file_created",
                   "fallback_tu.created", "fallback_tu.before_reparse", "fallback_tu.drop",
                   "sys.open-write", "sys.unlink", "sys.spawn", "sys.wait"]


def replay(doc):
    kind = doc.get("kind")
    scratch = "/var/tmp/bvsim-c11r-%d" % os.getpid()
    shutil.rmtree(scratch, ignore_errors=True)
    os.makedirs(scratch)
    try:
        if kind == "scenario":
            scn = doc["scenario"]
            # special headers live in the scratch dir of the original run: recreate them at the same paths
            for t in scn["threads"]:
                for j in t:
                    h = j.get("header", "")
                    base = os.path.basename(h)
                    if "/special/" in h:
                        os.makedirs(os.path.dirname(h), exist_ok=True)
                        if base in SPECIAL_HEADERS:
                            for name, text in SPECIAL_HEADERS.items():
                                os.makedirs(os.path.dirname(os.path.join(os.path.dirname(h), name)), exist_ok=True)
                                with open(os.path.join(os.path.dirname(h), name), "w") as f:
                                    f.write(text)
            r = run_requests([scn], workers=1, timeout=900, cwd=scratch, env=SHIM_ENV)[0]
            if (r.get("sched") or {}).get("forced_mismatch"):
                # The forced trace no longer fits (the tree changed, or the run
                # depends on something outside the simulator such as file
                # mtimes of colliding scratch files): fall back to re-running
                # the scenario under its recorded scheduler seed.
                log("[C11] forced trace diverged (" + r["sched"]["forced_mismatch"] + "); re-running by seed")
                scn2 = dict(scn, sched={k: v for k, v in scn["sched"].items() if k != "forced"})
                r = run_requests([scn2], workers=1, timeout=900, cwd=scratch, env=SHIM_ENV)[0]
            if "results" not in r:
                return r.get("kind") in ("crash", "timeout"), r
            for th, got in zip(scn["threads"], r["results"]):
                for j, o in zip(th, got):
                    if j["id"] == doc["job_id"] and obs_of(o) != doc["expected"]:
                        return True, obs_of(o)
            return False, r
        if kind == "relative":
            work = os.path.join(scratch, "w")
            os.makedirs(work)
            rel_job, rel_obs = relative_runs(scratch, work)
            return any(obs_of(o) != obs_of(rel_obs[0]) for o in rel_obs[1:]) or rel_obs[0].get("kind") != "ok", \
                [obs_of(o) for o in rel_obs]
        if kind == "cli":
            import hashlib
            exe = build_cli()
            work = os.path.join(scratch, "w")
            os.makedirs(work)
            r = run_cli(exe, doc["job"], work, "r", {}, doc["no_aslr"])
            return r.get("status") != 0 or r.get("sha") != doc["expected_sha"], r
        if kind == "process":
            work = os.path.join(scratch, "w")
            os.makedirs(work)
            r = run_one({"op": "gen", "job": instantiate(doc["job"], scratch, "r"), "salt": doc["salt"]}, work, "r",
                        doc["env"], doc["no_aslr"])
            return obs_of(r) != doc["expected"], obs_of(r)
        raise HarnessError(f"unknown C11 replay kind {kind}")
    finally:
        shutil.rmtree(scratch, ignore_errors=True)
        for t in (doc.get("scenario") or {}).get("threads", []):
            for j in t:
                h = j.get("header", "")
                if "/special/" in h and "/var/tmp/bvsim-c11-" in h:
                    shutil.rmtree(os.path.dirname(os.path.dirname(h)), ignore_errors=True)
