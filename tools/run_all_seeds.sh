#!/bin/bash
# Applies every seeded change in turn to /repo, runs the check of its property (quick tier),
# records whether it was caught, and resets /repo. Writes seeded/RESULTS.json.
cd /verif
OUT=/verif/seeded/RESULTS.json
echo "{" > $OUT.tmp
first=1
for d in seeded/*/; do
  id=$(basename $d)
  prop=$(python3 -c "import json;m=json.load(open('$d/meta.json'));print(m.get('detect_with') or m['property'])")
  p=/verif/${d}patch.diff; [ -f /verif/${d}patch.rebased.diff ] && p=/verif/${d}patch.rebased.diff
  rm -rf replays
  res=$(tools/try_seed.sh $p $prop 2>&1)
  rc=$(echo "$res" | grep -o "check exit=[0-9]*" | cut -d= -f2)
  nviol=$(echo "$res" | grep -c "^VIOLATION")
  cls=$(echo "$res" | grep -o '"class": "[^"]*"' | sort | uniq -c | sort -rn | head -3 | awk '{print $3 $4}' | tr '\n' ' ')
  echo "$id prop=$prop exit=$rc violations=$nviol $cls"
  [ $first -eq 0 ] && echo "," >> $OUT.tmp; first=0
  echo " \"$id\": {\"property\": \"$prop\", \"check_exit\": ${rc:-null}, \"violation_lines\": $nviol, \"caught\": $([ "$rc" = "1" ] && echo true || echo false)}" >> $OUT.tmp
done
echo "}" >> $OUT.tmp
mv $OUT.tmp $OUT
rm -rf replays
