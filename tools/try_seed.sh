#!/bin/bash
# try_seed.sh <patch.diff> <check-id> [tier]  — apply a seeded change to /repo, run the check, undo it.
set -u
P="$1"; ID="$2"; TIER="${3:-quick}"
cd /repo && git reset -q --hard HEAD
if ! git apply -3 "$P" 2>/dev/null; then echo "PATCH DOES NOT APPLY"; git reset -q --hard HEAD; exit 3; fi
rm -rf /tmp/evidence.keep && cp -r /verif/evidence /tmp/evidence.keep   # evidence must only ever come from the unchanged tree
cd /verif && bin/check "$ID" --tier "$TIER" 2>&1 | grep -E "VIOLATION|KNOWN|HARNESS|signature" | head -20
RC=${PIPESTATUS[0]}
cd /repo && git reset -q --hard HEAD
rm -rf /verif/evidence && mv /tmp/evidence.keep /verif/evidence
cd /verif && bin/check build >/dev/null 2>&1   # never leave a driver built from a patched tree behind
echo "check exit=$RC"
