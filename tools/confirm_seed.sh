#!/bin/bash
# confirm_seed.sh <change-dir> <scratch-worktree>
# Confirms a seeded change independently: patch applies, builds, the existing
# suite still passes (690 + the 3 baseline failures), demo fails with the
# change and passes without. Writes <change-dir>/confirm.json.
set -u
CH="$1"; WT="$2"
cd "$WT" || exit 2
git reset -q --hard HEAD; git clean -fdq -e target
if ! git apply "$CH/patch.diff"; then echo "{\"applies\": false}" > "$CH/confirm.json"; exit 1; fi
timeout 1800 cargo build --offline -p bindgen -p bindgen-cli > "$CH/confirm-build.log" 2>&1; BUILD=$?
timeout 3000 cargo nextest run --workspace --no-fail-fast --offline --test-threads 6 > "$CH/confirm-suite.log" 2>&1
SUMMARY=$(grep -E "^\s+Summary" "$CH/confirm-suite.log" | tail -1)
FAILS=$(grep -E "^\s+FAIL " "$CH/confirm-suite.log" | awk '{print $NF}' | sort -u | tr '\n' ' ')
timeout 1800 bash "$CH/demo/run.sh" "$WT" > "$CH/confirm-demo-with.log" 2>&1; WITH=$?
git reset -q --hard HEAD; git clean -fdq -e target
timeout 1800 bash "$CH/demo/run.sh" "$WT" > "$CH/confirm-demo-without.log" 2>&1; WITHOUT=$?
python3 - "$CH" "$BUILD" "$SUMMARY" "$FAILS" "$WITH" "$WITHOUT" <<'PY'
import json,sys
ch,build,summary,fails,w,wo=sys.argv[1:7]
base={"header_atomic_constant_h","header_issue_753_h","header_ptr32_has_different_size_h"}
f=set(fails.split())
json.dump({"applies":True,"build_exit":int(build),"suite_summary":summary.strip(),"suite_failures":sorted(f),
 "suite_ok": f<=base and "690 passed" in summary, "demo_exit_with_change":int(w),"demo_exit_without_change":int(wo),
 "confirmed": int(build)==0 and f<=base and "690 passed" in summary and int(w)!=0 and int(wo)==0}, open(ch+"/confirm.json","w"), indent=1)
print(open(ch+"/confirm.json").read())
PY
