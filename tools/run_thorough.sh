#!/bin/bash
# Runs the four thorough checks one after the other and records time and exit status.
cd /verif
for c in C12 C11 C07 C15; do
  s=$(date +%s)
  bin/check $c --tier thorough > /tmp/thorough.$c.log 2>&1
  rc=$?
  e=$(date +%s)
  echo "$c thorough exit=$rc seconds=$((e-s)) violations=$(grep -c ^VIOLATION /tmp/thorough.$c.log) known=$(grep -c ^KNOWN-FINDING /tmp/thorough.$c.log)"
  cp evidence/$c.json /tmp/thorough.$c.evidence.json
done
