#!/bin/bash
# keep_seed.sh <change-dir> <seed-id> <detected-by text>
set -e
CH="$1"; ID="$2"; DET="$3"
D=/verif/seeded/$ID
mkdir -p "$D"
cp "$CH/patch.diff" "$D/patch.diff"
[ -f "$CH/patch.rebased.diff" ] && cp "$CH/patch.rebased.diff" "$D/patch.rebased.diff"
rm -rf "$D/demo"; cp -r "$CH/demo" "$D/demo"
python3 - "$CH" "$D" "$DET" <<'PY'
import json,sys
ch,d,det=sys.argv[1:4]
m=json.load(open(ch+"/meta.json"))
c=json.load(open(ch+"/confirm.json"))
out={"property":m.get("property"),"summary":m.get("summary"),"needs_to_manifest":m.get("needs_to_manifest"),
 "files_touched":m.get("files_touched"),"author_ran":m.get("ran"),
 "confirmed_independently":c,"what_i_ran":["tools/confirm_seed.sh (apply, cargo build, cargo nextest run --workspace, demo with and without the change)","tools/try_seed.sh <patch> <check> (apply to /repo, bin/check, git reset)"],
 "detected_by":det}
json.dump(out,open(d+"/meta.json","w"),indent=1)
PY
echo kept $ID
