//! C15 simulated tier: the real `Bindings::write` / `format_tokens` against a
//! simulated formatter child, simulated pipes and a writer thread, all
//! scheduled by shuttle.
use crate::util::*;
use bindgen::verif::process as vp;
use serde_json::{json, Value};
use shuttle::rand::RngCore;
use shuttle::sync::{Condvar, Mutex};
use std::collections::{BTreeMap, BTreeSet, VecDeque};
use std::ffi::{OsStr, OsString};
use std::io::{self, Read, Write};
use std::panic::{catch_unwind, AssertUnwindSafe};
use std::sync::atomic::{AtomicU64, Ordering};
use std::sync::Arc;

// ------------------------------------------------------------------ stats

#[derive(Default)]
pub struct Stats {
    pub short_reads: AtomicU64,
    pub short_writes: AtomicU64,
    pub interrupted: AtomicU64,
    pub broken_pipe: AtomicU64,
    pub blocked_full: AtomicU64,
    pub blocked_empty: AtomicU64,
    pub spawn_errors: AtomicU64,
    pub read_errors: AtomicU64,
    pub wait_errors: AtomicU64,
    pub out_short: AtomicU64,
    pub out_interrupted: AtomicU64,
    pub steps: AtomicU64,
    pub respawns: AtomicU64,
}

static STATS: std::sync::OnceLock<Stats> = std::sync::OnceLock::new();
fn stats() -> &'static Stats {
    STATS.get_or_init(Stats::default)
}
fn bump(c: &AtomicU64) {
    c.fetch_add(1, Ordering::Relaxed);
}

// ------------------------------------------------------------------ pipes

struct PipeState {
    buf: VecDeque<u8>,
    cap: usize, // 0 = unbounded
    writer_closed: bool,
    reader_closed: bool,
}

#[derive(Clone)]
struct Pipe(Arc<(Mutex<PipeState>, Condvar)>);

#[derive(Clone, Copy)]
struct Faults {
    short_permille: u64,
    eintr_permille: u64,
}

fn draw(permille: u64) -> bool {
    permille > 0 && shuttle::rand::thread_rng().next_u64() % 1000 < permille
}
fn draw_below(n: usize) -> usize {
    if n <= 1 {
        return n;
    }
    1 + (shuttle::rand::thread_rng().next_u64() as usize) % n
}

impl Pipe {
    fn new(cap: usize) -> Pipe {
        Pipe(Arc::new((
            Mutex::new(PipeState {
                buf: VecDeque::new(),
                cap,
                writer_closed: false,
                reader_closed: false,
            }),
            Condvar::new(),
        )))
    }
    fn close_writer(&self) {
        let mut s = self.0 .0.lock().unwrap();
        s.writer_closed = true;
        self.0 .1.notify_all();
    }
    fn close_reader(&self) {
        let mut s = self.0 .0.lock().unwrap();
        s.reader_closed = true;
        self.0 .1.notify_all();
    }
    fn write(&self, data: &[u8], f: Faults, log: &Log, who: u8) -> io::Result<usize> {
        if data.is_empty() {
            return Ok(0);
        }
        if draw(f.eintr_permille) {
            bump(&stats().interrupted);
            log.push(who, b'i', 0);
            return Err(io::ErrorKind::Interrupted.into());
        }
        let mut s = self.0 .0.lock().unwrap();
        loop {
            if s.reader_closed {
                bump(&stats().broken_pipe);
                log.push(who, b'p', 0);
                return Err(io::ErrorKind::BrokenPipe.into());
            }
            let space = if s.cap == 0 { usize::MAX } else { s.cap - s.buf.len() };
            if space == 0 {
                bump(&stats().blocked_full);
                s = self.0 .1.wait(s).unwrap();
                continue;
            }
            let mut n = data.len().min(space);
            if draw(f.short_permille) {
                let m = draw_below(n);
                if m < n {
                    bump(&stats().short_writes);
                }
                n = m;
            }
            s.buf.extend(&data[..n]);
            self.0 .1.notify_all();
            log.push(who, b'w', n);
            return Ok(n);
        }
    }
    fn read(&self, out: &mut [u8], f: Faults, log: &Log, who: u8) -> io::Result<usize> {
        if out.is_empty() {
            return Ok(0);
        }
        if draw(f.eintr_permille) {
            bump(&stats().interrupted);
            log.push(who, b'i', 0);
            return Err(io::ErrorKind::Interrupted.into());
        }
        let mut s = self.0 .0.lock().unwrap();
        loop {
            if !s.buf.is_empty() {
                let mut n = out.len().min(s.buf.len());
                if draw(f.short_permille) {
                    let m = draw_below(n);
                    if m < n {
                        bump(&stats().short_reads);
                    }
                    n = m;
                }
                for b in out.iter_mut().take(n) {
                    *b = s.buf.pop_front().unwrap();
                }
                self.0 .1.notify_all();
                log.push(who, b'r', n);
                return Ok(n);
            }
            if s.writer_closed {
                log.push(who, b'e', 0);
                return Ok(0);
            }
            bump(&stats().blocked_empty);
            s = self.0 .1.wait(s).unwrap();
        }
    }
}

struct PipeWriter {
    pipe: Pipe,
    faults: Faults,
    log: Log,
    who: u8,
}
impl Write for PipeWriter {
    fn write(&mut self, buf: &[u8]) -> io::Result<usize> {
        self.pipe.write(buf, self.faults, &self.log, self.who)
    }
    fn flush(&mut self) -> io::Result<()> {
        Ok(())
    }
}
impl Drop for PipeWriter {
    fn drop(&mut self) {
        self.pipe.close_writer();
    }
}

struct PipeReader {
    pipe: Pipe,
    faults: Faults,
    log: Log,
    who: u8,
    /// Inject an I/O error on the n-th read call (parent side only).
    err_at: Option<u64>,
    calls: u64,
    err_fired: Arc<AtomicU64>,
}
impl Read for PipeReader {
    fn read(&mut self, buf: &mut [u8]) -> io::Result<usize> {
        self.calls += 1;
        if self.err_at == Some(self.calls) {
            bump(&stats().read_errors);
            self.err_fired.store(1, Ordering::SeqCst);
            return Err(io::Error::new(io::ErrorKind::Other, "EIO (injected)"));
        }
        self.pipe.read(buf, self.faults, &self.log, self.who)
    }
}
impl Drop for PipeReader {
    fn drop(&mut self) {
        self.pipe.close_reader();
    }
}

/// Event log of one execution; its hash is the interleaving fingerprint.
#[derive(Clone, Default)]
struct Log(Arc<std::sync::Mutex<Vec<(u8, u8, usize)>>>);
impl Log {
    fn push(&self, who: u8, what: u8, n: usize) {
        self.0.lock().unwrap().push((who, what, n));
    }
    fn fingerprint(&self) -> u64 {
        let v = self.0.lock().unwrap();
        let mut bytes = Vec::with_capacity(v.len() * 4);
        for (a, b, n) in v.iter() {
            bytes.push(*a);
            bytes.push(*b);
            bytes.extend_from_slice(&(*n as u32).to_le_bytes());
        }
        fp64(&bytes)
    }
    fn len(&self) -> usize {
        self.0.lock().unwrap().len()
    }
}

// ------------------------------------------------------------------ scripts

#[derive(Clone, Debug)]
pub enum Step {
    Read(usize),
    ReadAll,
    Write { kind: String, part: String },
    CloseStdin,
    CloseStdout,
}

#[derive(Clone, Debug)]
pub struct Case {
    pub id: String,
    pub bindings: usize,
    pub spawn: String,
    pub steps: Vec<Step>,
    pub exit_code: Option<i32>, // None = killed by a signal
    pub cap_in: usize,
    pub cap_out: usize,
    pub short_permille: u64,
    pub eintr_permille: u64,
    pub wait_err: bool,
    pub read_err_at: Option<u64>,
    pub out_short_permille: u64,
    pub out_eintr_permille: u64,
    pub raw: Value,
}

impl Case {
    pub fn from_json(v: &Value) -> Case {
        let steps = v
            .get("steps")
            .and_then(|s| s.as_array())
            .map(|a| {
                a.iter()
                    .filter_map(|s| {
                        if let Some(n) = s.get("read").and_then(|x| x.as_u64()) {
                            Some(Step::Read(n as usize))
                        } else if s.get("readall").is_some() {
                            Some(Step::ReadAll)
                        } else if let Some(w) = s.get("write") {
                            Some(Step::Write {
                                kind: jstr(w, "kind").unwrap_or("echo").into(),
                                part: jstr(w, "part").unwrap_or("all").into(),
                            })
                        } else if let Some(c) = s.get("close").and_then(|x| x.as_str()) {
                            Some(if c == "stdin" { Step::CloseStdin } else { Step::CloseStdout })
                        } else {
                            None
                        }
                    })
                    .collect()
            })
            .unwrap_or_default();
        Case {
            id: jstr(v, "id").unwrap_or("").into(),
            bindings: ju64(v, "bindings").unwrap_or(0) as usize,
            spawn: jstr(v, "spawn").unwrap_or("ok").into(),
            steps,
            exit_code: v.get("exit").and_then(|e| e.as_i64()).map(|c| c as i32),
            cap_in: ju64(v, "cap_in").unwrap_or(0) as usize,
            cap_out: ju64(v, "cap_out").unwrap_or(0) as usize,
            short_permille: ju64(v, "short").unwrap_or(0),
            eintr_permille: ju64(v, "eintr").unwrap_or(0),
            wait_err: jbool(v, "wait_err"),
            read_err_at: ju64(v, "read_err_at"),
            out_short_permille: ju64(v, "out_short").unwrap_or(0),
            out_eintr_permille: ju64(v, "out_eintr").unwrap_or(0),
            raw: v.clone(),
        }
    }
}

/// "Formatted" text: the input with a newline after each `;`, `{` and `}` —
/// different layout, identical tokens.
fn reformat(input: &[u8]) -> Vec<u8> {
    fmtscript::reformat(input)
}

// ------------------------------------------------------------------ process table

struct ChildShared {
    /// What the child managed to write to its stdout.
    written: std::sync::Mutex<Vec<u8>>,
    consumed: std::sync::Mutex<usize>,
}

struct Table {
    case: Case,
    read_err_fired: Arc<AtomicU64>,
    log: Log,
    shared: Arc<ChildShared>,
    spawned: std::sync::Mutex<Vec<(OsString, Vec<OsString>)>>,
}

struct ShuttleJoin(shuttle::thread::JoinHandle<()>);
impl vp::SimJoin for ShuttleJoin {
    fn join(self: Box<Self>) {
        let _ = self.0.join();
    }
}

impl vp::ProcessTable for Table {
    fn spawn(
        &self,
        program: &OsStr,
        args: &[OsString],
        _stdin_piped: bool,
        _stdout_piped: bool,
    ) -> io::Result<vp::SimChild> {
        self.spawned
            .lock()
            .unwrap()
            .push((program.to_owned(), args.to_vec()));
        match self.case.spawn.as_str() {
            "notfound" => {
                bump(&stats().spawn_errors);
                return Err(io::ErrorKind::NotFound.into());
            }
            "perm" => {
                bump(&stats().spawn_errors);
                return Err(io::ErrorKind::PermissionDenied.into());
            }
            "other" => {
                bump(&stats().spawn_errors);
                return Err(io::Error::new(io::ErrorKind::Other, "EAGAIN (injected)"));
            }
            _ => {}
        }
        let c = &self.case;
        let faults = Faults {
            short_permille: c.short_permille,
            eintr_permille: c.eintr_permille,
        };
        // the child itself never sees EINTR (it is the environment, not the code under test)
        let child_faults = Faults { short_permille: c.short_permille, eintr_permille: 0 };
        let pin = Pipe::new(c.cap_in);
        let pout = Pipe::new(c.cap_out);
        let child_in = PipeReader {
            pipe: pin.clone(),
            faults: child_faults,
            log: self.log.clone(),
            who: b'C',
            err_at: None,
            calls: 0,
            err_fired: Arc::new(AtomicU64::new(0)),
        };
        let child_out = PipeWriter {
            pipe: pout.clone(),
            faults: child_faults,
            log: self.log.clone(),
            who: b'C',
        };
        let steps = c.steps.clone();
        let exit = c.exit_code;
        let shared = self.shared.clone();
        let handle = shuttle::thread::spawn(move || {
            run_child(steps, child_in, child_out, &shared);
        });
        let handle = Arc::new(std::sync::Mutex::new(Some(handle)));
        let wait_err = c.wait_err;
        let wait = Box::new(move || {
            if let Some(h) = handle.lock().unwrap().take() {
                let _ = h.join();
            }
            if wait_err {
                bump(&stats().wait_errors);
                return Err(io::Error::new(io::ErrorKind::Other, "ECHILD (injected)"));
            }
            Ok(exit)
        });
        Ok(vp::SimChild {
            stdin: Some(Box::new(PipeWriter {
                pipe: pin,
                faults,
                log: self.log.clone(),
                who: b'W',
            })),
            stdout: Some(Box::new(PipeReader {
                pipe: pout,
                faults,
                log: self.log.clone(),
                who: b'P',
                err_at: c.read_err_at,
                calls: 0,
                err_fired: self.read_err_fired.clone(),
            })),
            wait,
        })
    }

    fn spawn_thread(&self, f: Box<dyn FnOnce() + Send + 'static>) -> Box<dyn vp::SimJoin> {
        Box::new(ShuttleJoin(shuttle::thread::spawn(f)))
    }
}

fn run_child(steps: Vec<Step>, stdin: PipeReader, stdout: PipeWriter, shared: &ChildShared) {
    let mut stdin = Some(stdin);
    let mut stdout = Some(stdout);
    let mut input: Vec<u8> = Vec::new();
    for step in steps {
        match step {
            Step::Read(n) => {
                if let Some(r) = stdin.as_mut() {
                    let mut left = n;
                    let mut buf = [0u8; 4096];
                    while left > 0 {
                        let want = left.min(buf.len());
                        match r.read(&mut buf[..want]) {
                            Ok(0) => break,
                            Ok(k) => {
                                input.extend_from_slice(&buf[..k]);
                                left -= k;
                            }
                            Err(_) => break,
                        }
                    }
                }
            }
            Step::ReadAll => {
                if let Some(r) = stdin.as_mut() {
                    let mut buf = [0u8; 8192];
                    loop {
                        match r.read(&mut buf) {
                            Ok(0) => break,
                            Ok(k) => input.extend_from_slice(&buf[..k]),
                            Err(_) => break,
                        }
                    }
                }
            }
            Step::Write { kind, part } => {
                if let Some(w) = stdout.as_mut() {
                    let mut data: Vec<u8> = match kind.as_str() {
                        "echo" => input.clone(),
                        "formatted" => reformat(&input),
                        "garbage" => b"fn ( { this is not rust ] ]] \xc3\xa9\n".repeat(7),
                        "badutf8" => {
                            let mut d = reformat(&input);
                            d.extend_from_slice(b"\xff\xfe\xc0 broken");
                            d
                        }
                        _ => Vec::new(),
                    };
                    match part.as_str() {
                        "half" => data.truncate(data.len() / 2),
                        "none" => data.clear(),
                        _ => {}
                    }
                    let mut off = 0;
                    while off < data.len() {
                        match w.write(&data[off..]) {
                            Ok(0) => break,
                            Ok(k) => {
                                shared.written.lock().unwrap().extend_from_slice(&data[off..off + k]);
                                off += k;
                            }
                            Err(_) => break,
                        }
                    }
                }
            }
            Step::CloseStdin => {
                stdin = None;
            }
            Step::CloseStdout => {
                stdout = None;
            }
        }
    }
    *shared.consumed.lock().unwrap() = input.len();
    // exit: all descriptors close
    drop(stdin);
    drop(stdout);
}

// ------------------------------------------------------------------ parent side

/// The `Write` handed to `Bindings::write`: legal short writes and transient
/// `Interrupted`.
struct OutWriter {
    buf: Vec<u8>,
    short_permille: u64,
    eintr_permille: u64,
}
impl Write for OutWriter {
    fn write(&mut self, data: &[u8]) -> io::Result<usize> {
        if data.is_empty() {
            return Ok(0);
        }
        if draw(self.eintr_permille) {
            bump(&stats().out_interrupted);
            return Err(io::ErrorKind::Interrupted.into());
        }
        let mut n = data.len();
        if draw(self.short_permille) {
            let m = draw_below(n);
            if m < n {
                bump(&stats().out_short);
            }
            n = m;
        }
        self.buf.extend_from_slice(&data[..n]);
        Ok(n)
    }
    fn flush(&mut self) -> io::Result<()> {
        Ok(())
    }
}

/// A prepared `Bindings` value plus what the oracle needs to know about it.
pub struct Prepared {
    pub name: String,
    pub bindings: bindgen::Bindings,
    /// header comment + raw lines, exactly as `write` must emit them
    pub prefix: String,
    /// the unformatted body (formatter none) and its normalised token text
    pub unformatted: String,
    pub tokens: String,
    /// false if even formatter=none does not start with the modelled prefix
    pub prefix_ok: bool,
}

struct Shared(*const Vec<Prepared>);
unsafe impl Send for Shared {}
unsafe impl Sync for Shared {}

/// The token sequence of a text, delimiters made explicit, layout and
/// `Spacing` hints of punctuation dropped.
fn normalise(s: &str) -> Result<String, String> {
    fn flat(ts: proc_macro2::TokenStream, out: &mut String) {
        for t in ts {
            match t {
                proc_macro2::TokenTree::Group(g) => {
                    out.push_str(match g.delimiter() {
                        proc_macro2::Delimiter::Parenthesis => "( ",
                        proc_macro2::Delimiter::Brace => "{ ",
                        proc_macro2::Delimiter::Bracket => "[ ",
                        proc_macro2::Delimiter::None => "<none> ",
                    });
                    flat(g.stream(), out);
                    out.push_str(") ");
                }
                other => {
                    out.push_str(&other.to_string());
                    out.push(' ');
                }
            }
        }
    }
    let ts = s
        .parse::<proc_macro2::TokenStream>()
        .map_err(|e| format!("{e}"))?;
    let mut out = String::with_capacity(s.len());
    flat(ts, &mut out);
    Ok(out)
}

/// The version the header comment must name: read from the library's manifest.
fn bindgen_version() -> String {
    let toml = std::fs::read_to_string("/repo/bindgen/Cargo.toml").unwrap_or_default();
    for line in toml.lines() {
        if let Some(rest) = line.strip_prefix("version = \"") {
            return rest.trim_end_matches('"').to_string();
        }
    }
    "(unknown version)".into()
}

/// Raw lines in an order that no "clever" re-grouping leaves intact: a comment
/// and a doc line stand before / between inner attributes.
const RAW_LINES: [&str; 5] = [
    "// raw line one",
    "#![allow(dead_code)]",
    "//! module docs between the attributes",
    "#![allow(non_snake_case)]",
    "use core::ffi::c_void as _rawline_marker;",
];

pub fn prepare(sizes: &[usize]) -> Vec<Prepared> {
    let mut out = Vec::new();
    let dir = std::env::temp_dir().join(format!("bvsim-c15-{}", std::process::id()));
    let _ = std::fs::create_dir_all(&dir);
    for (i, &n) in sizes.iter().enumerate() {
        let h = header_text(n);
        let path = dir.join(format!("c15_{i}.h"));
        std::fs::write(&path, h).unwrap();
        for variant in 0..2 {
            // variant 0: header comment + raw lines; variant 1: neither
            let mk = |fmt: &str| {
                let mut args: Vec<String> =
                    vec!["bindgen".into(), format!("--formatter={fmt}"), path.to_string_lossy().into()];
                if variant == 0 {
                    for r in RAW_LINES {
                        args.push("--raw-line".into());
                        args.push(r.into());
                    }
                } else {
                    args.push("--disable-header-comment".into());
                }
                // (the CLI turns the formatter into rustfmt when a configuration file is
                // given, so only the rustfmt build may carry it)
                if variant == 1 && i == 0 && fmt == "rustfmt" {
                    args.push("--rustfmt-configuration-file".into());
                    args.push("/nonexistent/rustfmt.toml".into());
                }
                let (b, _, _) = bindgen::builder_from_flags(args.into_iter()).unwrap();
                b.generate().expect("prepare: generation failed")
            };
            let none = mk("none");
            let full = none.to_string();
            let prefix = if variant == 0 {
                format!(
                    "/* automatically generated by rust-bindgen {} */\n\n{}\n\n",
                    bindgen_version(),
                    RAW_LINES.join("\n")
                )
            } else {
                String::new()
            };
            // formatter=none must already put the header comment and raw lines first, once, in order
            let prefix_ok = full.starts_with(&prefix);
            let unformatted = if prefix_ok { full[prefix.len()..].to_string() } else { full.clone() };
            let tokens = normalise(&unformatted).unwrap_or_default();
            out.push(Prepared {
                name: format!("n{n}v{variant}"),
                bindings: mk("rustfmt"),
                prefix,
                unformatted,
                tokens,
                prefix_ok,
            });
        }
    }
    let _ = std::fs::remove_dir_all(&dir);
    out
}

/// One execution of one case under whatever schedule shuttle is driving.
/// Panics (with a `C15VIOL` tag) on an oracle failure so that shuttle
/// persists the schedule.
fn execute(case: &Case, prepared: &[Prepared], fps: &std::sync::Mutex<BTreeSet<u64>>) {
    let p = &prepared[case.bindings % prepared.len()];
    if !p.prefix_ok {
        panic!("C15VIOL prefix: with formatter none the header comment / raw lines are not first, once and in order");
    }
    let log = Log::default();
    let shared = Arc::new(ChildShared {
        written: std::sync::Mutex::new(Vec::new()),
        consumed: std::sync::Mutex::new(0),
    });
    // shuttle insists that an execution exercises some concurrency; a failed
    // spawn creates none, so always start (and join) one trivial thread.
    let _ = shuttle::thread::spawn(|| {}).join();
    let table = Arc::new(Table {
        case: case.clone(),
        read_err_fired: Arc::new(AtomicU64::new(0)),
        log: log.clone(),
        shared: shared.clone(),
        spawned: std::sync::Mutex::new(Vec::new()),
    });
    vp::install(Some(table.clone()));
    let mut w = OutWriter {
        buf: Vec::new(),
        short_permille: case.out_short_permille,
        eintr_permille: case.out_eintr_permille,
    };
    let r = catch_unwind(AssertUnwindSafe(|| p.bindings.write(&mut w)));
    vp::install(None);
    stats().steps.fetch_add(log.len() as u64, Ordering::Relaxed);
    fps.lock().unwrap().insert(log.fingerprint());

    let r = match r {
        Ok(r) => r,
        Err(_) => panic!("C15VIOL panic: Bindings::write panicked: {}", crate::job::take_panic().unwrap_or_default()),
    };
    if let Err(e) = r {
        panic!("C15VIOL write-error: Bindings::write returned Err({e}) although the output writer never fails");
    }
    // How often the formatter is started is not part of the property (a retry
    // would be legal); it is counted, the text is what is judged.
    let spawned = table.spawned.lock().unwrap().len();
    if spawned != 1 {
        bump(&stats().respawns);
    }
    let out = match String::from_utf8(w.buf) {
        Ok(s) => s,
        Err(_) => panic!("C15VIOL corrupt: output is not valid UTF-8"),
    };
    if !out.starts_with(&p.prefix) {
        panic!("C15VIOL prefix: header comment / raw lines missing, duplicated or out of order");
    }
    let body = &out[p.prefix.len()..];
    let written = shared.written.lock().unwrap().clone();
    let success = case.spawn == "ok" &&
        matches!(case.exit_code, Some(0) | Some(3)) &&
        !case.wait_err &&
        table.read_err_fired.load(Ordering::SeqCst) == 0 &&
        std::str::from_utf8(&written).is_ok();
    if success {
        if body.as_bytes() != &written[..] {
            panic!(
                "C15VIOL trusted-output: formatter succeeded (exit {:?}) but the body is not its output ({} vs {} bytes)",
                case.exit_code,
                body.len(),
                written.len()
            );
        }
    } else if body != p.unformatted {
        match normalise(body) {
            Ok(t) if t == p.tokens => {}
            Ok(_) => panic!("C15VIOL fallback-tokens: formatter failed but the body is not token-identical to the unformatted code"),
            Err(e) => panic!("C15VIOL fallback-corrupt: formatter failed and the body does not tokenise: {e}"),
        }
    }
}

// ------------------------------------------------------------------ driver ops

fn stats_json() -> Value {
    let s = stats();
    let g = |c: &AtomicU64| c.load(Ordering::Relaxed);
    json!({
        "short_reads": g(&s.short_reads), "short_writes": g(&s.short_writes),
        "interrupted": g(&s.interrupted), "broken_pipe": g(&s.broken_pipe),
        "blocked_on_full_pipe": g(&s.blocked_full), "blocked_on_empty_pipe": g(&s.blocked_empty),
        "spawn_errors": g(&s.spawn_errors), "stdout_read_errors": g(&s.read_errors),
        "wait_errors": g(&s.wait_errors), "out_short_writes": g(&s.out_short),
        "out_interrupted": g(&s.out_interrupted), "pipe_events": g(&s.steps),
        "executions_with_formatter_spawned_other_than_once": g(&s.respawns),
    })
}

thread_local! {
    static PREPARED: std::cell::RefCell<Option<Arc<Vec<Prepared>>>> = const { std::cell::RefCell::new(None) };
}

fn prepared(sizes: &[usize]) -> Arc<Vec<Prepared>> {
    PREPARED.with(|p| {
        let mut p = p.borrow_mut();
        if p.is_none() {
            *p = Some(Arc::new(prepare(sizes)));
        }
        p.as_ref().unwrap().clone()
    })
}

fn sizes_from(req: &Value) -> Vec<usize> {
    req.get("sizes")
        .and_then(|s| s.as_array())
        .map(|a| a.iter().filter_map(|x| x.as_u64().map(|x| x as usize)).collect())
        .unwrap_or_else(|| vec![1, 40])
}

fn make_runner_config(dir: &std::path::Path) -> shuttle::Config {
    let mut cfg = shuttle::Config::new();
    cfg.stack_size = 4 << 20;
    cfg.failure_persistence = shuttle::FailurePersistence::File(Some(dir.to_path_buf()));
    cfg.max_steps = shuttle::MaxSteps::FailAfter(20_000_000);
    cfg.silence_warnings = true;
    cfg
}

/// op "c15": run each case under `schedules` schedules.
pub fn op_sim(req: &Value) -> Value {
    crate::job::install_panic_hook();
    let sizes = sizes_from(req);
    let prep = prepared(&sizes);
    let cases: Vec<Case> = req["cases"]
        .as_array()
        .map(|a| a.iter().map(Case::from_json).collect())
        .unwrap_or_default();
    let schedules = ju64(req, "schedules").unwrap_or(10) as usize;
    let seed = ju64(req, "seed").unwrap_or(1);
    let pct_depth = ju64(req, "pct_depth").unwrap_or(0) as usize;
    let dir = std::path::PathBuf::from(jstr(req, "schedule_dir").unwrap_or("/tmp"));
    let _ = std::fs::create_dir_all(&dir);
    let mut results = Vec::new();
    let mut executions = 0u64;
    let mut distinct = 0u64;
    let stats_before = stats_json();
    for (i, case) in cases.iter().enumerate() {
        let fps = Arc::new(std::sync::Mutex::new(BTreeSet::new()));
        let case_dir = dir.join(format!("{}-{}", std::process::id(), case.id.replace('/', "_")));
        let _ = std::fs::create_dir_all(&case_dir);
        let cfg = make_runner_config(&case_dir);
        let shared = Shared(Arc::as_ptr(&prep));
        let c2 = case.clone();
        let fps2 = fps.clone();
        let body = move || {
            let sh = &shared;
            // SAFETY: shuttle runs every simulated thread of this runner on
            // the calling OS thread; `prep` outlives the runner.
            let prepared: &Vec<Prepared> = unsafe { &*sh.0 };
            execute(&c2, prepared, &fps2);
        };
        let case_seed = seed ^ fp64(case.id.as_bytes()) ^ (i as u64);
        let r = catch_unwind(AssertUnwindSafe(|| {
            if pct_depth > 0 {
                let s = shuttle::scheduler::PctScheduler::new_from_seed(case_seed, pct_depth, schedules);
                shuttle::Runner::new(s, cfg).run(body)
            } else {
                let s = shuttle::scheduler::RandomScheduler::new_from_seed(case_seed, schedules);
                shuttle::Runner::new(s, cfg).run(body)
            }
        }));
        bindgen::verif::process::install(None);
        let nfp = fps.lock().unwrap().len() as u64;
        distinct += nfp;
        match r {
            Ok(n) => {
                executions += n as u64;
                let _ = std::fs::remove_dir_all(&case_dir);
            }
            Err(e) => {
                let msg = if let Some(s) = e.downcast_ref::<String>() {
                    s.clone()
                } else if let Some(s) = e.downcast_ref::<&str>() {
                    (*s).to_string()
                } else {
                    crate::job::take_panic().unwrap_or_else(|| "<panic>".into())
                };
                let sched = std::fs::read_dir(&case_dir)
                    .ok()
                    .and_then(|rd| rd.flatten().map(|e| e.path()).next())
                    .and_then(|p| std::fs::read_to_string(p).ok());
                let _ = std::fs::remove_dir_all(&case_dir);
                results.push(json!({"case": case.raw, "message": msg, "schedule": sched}));
            }
        }
    }
    let mut delta = stats_json();
    if let (Some(d), Some(b)) = (delta.as_object_mut(), stats_before.as_object()) {
        for (k, v) in d.iter_mut() {
            let before = b.get(k).and_then(|x| x.as_u64()).unwrap_or(0);
            *v = json!(v.as_u64().unwrap_or(0) - before);
        }
    }
    json!({"executions": executions, "distinct_interleavings": distinct,
           "failures": results, "stats": delta, "cases": cases.len()})
}

/// op "c15-replay": run one case under one persisted schedule.
pub fn op_replay(req: &Value) -> Value {
    crate::job::install_panic_hook();
    let sizes = sizes_from(req);
    let prep = prepared(&sizes);
    let case = Case::from_json(&req["case"]);
    let schedule = jstr(req, "schedule").unwrap_or("").to_string();
    let fps = Arc::new(std::sync::Mutex::new(BTreeSet::new()));
    let shared = Shared(Arc::as_ptr(&prep));
    let fps2 = fps.clone();
    let body = move || {
        let sh = &shared;
        let prepared: &Vec<Prepared> = unsafe { &*sh.0 };
        execute(&case, prepared, &fps2);
    };
    let r = catch_unwind(AssertUnwindSafe(|| {
        let s = shuttle::scheduler::ReplayScheduler::new_from_encoded(&schedule);
        let mut cfg = shuttle::Config::new();
        cfg.stack_size = 4 << 20;
        cfg.failure_persistence = shuttle::FailurePersistence::None;
        cfg.silence_warnings = true;
        shuttle::Runner::new(s, cfg).run(body)
    }));
    bindgen::verif::process::install(None);
    match r {
        Ok(_) => json!({"reproduced": false}),
        Err(e) => {
            let msg = if let Some(s) = e.downcast_ref::<String>() {
                s.clone()
            } else if let Some(s) = e.downcast_ref::<&str>() {
                (*s).to_string()
            } else {
                "<panic>".into()
            };
            json!({"reproduced": true, "message": msg})
        }
    }
}

#[allow(dead_code)]
fn unused(_: BTreeMap<u8, u8>) {}

// ------------------------------------------------------------------ real-process tier

#[path = "fmtscript.rs"]
mod fmtscript;

thread_local! {
    static REAL: std::cell::RefCell<BTreeMap<String, std::rc::Rc<Prepared>>> =
        const { std::cell::RefCell::new(BTreeMap::new()) };
}

fn header_text(n: usize) -> String {
    let mut h = String::new();
    for k in 0..n {
        // doc comments with multi-byte characters: the formatter's output is not
        // plain ASCII, so byte-level handling of it (chunk boundaries) matters
        if k % 3 == 0 {
            // a long run of 3-byte characters whose alignment differs per size, so that
            // fixed byte offsets (64, 4096, 8192, ...) fall inside a character for some input
            let pad = "a".repeat(n % 3);
            h.push_str(&format!(
                "/** {pad}日本語の文書コメントがここに続きます。日本語の文書コメントがここに続きます。 Größe nº{k} — ☃ naïve */\n"
            ));
        }
        h.push_str(&format!(
            "struct s{k} {{ int a; char b[{}]; struct s{k}* next; double d; }};\nint f{k}(struct s{k}* p, int x);\n",
            1 + k % 7
        ));
    }
    h
}

fn prepare_real(n: usize, variant: usize, rustfmt: &str, formatter: &str, config: Option<&str>) -> std::rc::Rc<Prepared> {
    let key = format!("{n}/{variant}/{rustfmt}/{formatter}/{config:?}");
    if let Some(p) = REAL.with(|r| r.borrow().get(&key).cloned()) {
        return p;
    }
    let dir = std::env::temp_dir().join(format!("bvsim-c15r-{}", std::process::id()));
    let _ = std::fs::create_dir_all(&dir);
    let path = dir.join(format!("c15r_{n}.h"));
    std::fs::write(&path, header_text(n)).unwrap();
    let mk = |fmt: &str| {
        let mut args: Vec<String> =
            vec!["bindgen".into(), format!("--formatter={fmt}"), path.to_string_lossy().into()];
        if variant == 0 {
            for r in RAW_LINES {
                args.push("--raw-line".into());
                args.push(r.into());
            }
        } else {
            args.push("--disable-header-comment".into());
        }
        if let (Some(c), "rustfmt") = (config, fmt) {
            if !c.starts_with("nonutf8:") {
                args.push("--rustfmt-configuration-file".into());
                args.push(c.into());
            }
        }
        let (mut b, _, _) = bindgen::builder_from_flags(args.into_iter()).unwrap();
        if !rustfmt.is_empty() {
            b = b.with_rustfmt(rustfmt);
        }
        if let (Some(c), "rustfmt") = (config, fmt) {
            if let Some(dir) = c.strip_prefix("nonutf8:") {
                // library-only: a configuration path that is not valid UTF-8
                use std::os::unix::ffi::OsStringExt;
                let mut bytes = dir.as_bytes().to_vec();
                bytes.extend_from_slice(b"/cfg-\xff\xfe.toml");
                b = b.rustfmt_configuration_file(Some(std::ffi::OsString::from_vec(bytes).into()));
            }
        }
        b.generate().expect("prepare: generation failed")
    };
    let full = mk("none").to_string();
    let prefix = if variant == 0 {
        format!(
                    "/* automatically generated by rust-bindgen {} */\n\n{}\n\n",
                    bindgen_version(),
                    RAW_LINES.join("\n")
                )
    } else {
        String::new()
    };
    let prefix_ok = full.starts_with(&prefix);
    let unformatted = if prefix_ok { full[prefix.len()..].to_string() } else { full.clone() };
    let tokens = normalise(&unformatted).unwrap_or_default();
    let p = std::rc::Rc::new(Prepared {
        name: key.clone(),
        bindings: mk(formatter),
        prefix,
        unformatted,
        tokens,
        prefix_ok,
    });
    let _ = std::fs::remove_dir_all(&dir);
    REAL.with(|r| r.borrow_mut().insert(key, p.clone()));
    p
}

/// op "c15-real": one case against a real child process and real kernel pipes.
/// A hang shows as the request timing out on the Python side.
pub fn op_real(req: &Value) -> Value {
    crate::job::install_panic_hook();
    let n = ju64(req, "size").unwrap_or(1) as usize;
    let variant = ju64(req, "variant").unwrap_or(0) as usize;
    let rustfmt = jstr(req, "rustfmt").unwrap_or("");
    let formatter = jstr(req, "formatter").unwrap_or("rustfmt");
    let script = jstr(req, "script").unwrap_or("");
    let config = jstr(req, "config");
    let expect = jstr(req, "expect").unwrap_or("model");
    let p = prepare_real(n, variant, rustfmt, formatter, config);
    if !p.prefix_ok {
        return json!({"ok": false, "class": "prefix",
                      "message": "with formatter none the header comment / raw lines are not first, once and in order"});
    }
    std::env::set_var("FAKEFMT_SCRIPT", script);
    // the formatter may also come from $RUSTFMT (only consulted without with_rustfmt())
    match jstr(req, "rustfmt_env") {
        Some(v) => std::env::set_var("RUSTFMT", v),
        None => std::env::remove_var("RUSTFMT"),
    }
    let mut buf: Vec<u8> = Vec::new();
    // the three public ways to get the text out
    let sink = jstr(req, "sink").unwrap_or("vec");
    let r = catch_unwind(AssertUnwindSafe(|| match sink {
        "file" => {
            let path = std::env::temp_dir().join(format!("bvsim-c15-out-{}.rs", std::process::id()));
            // leftover content of an earlier, longer file must not survive
            let _ = std::fs::write(&path, vec![b'#'; 1 << 16]);
            let r = p.bindings.write_to_file(&path);
            buf = std::fs::read(&path).unwrap_or_default();
            let _ = std::fs::remove_file(&path);
            r
        }
        "string" => {
            buf = p.bindings.to_string().into_bytes();
            Ok(())
        }
        _ => p.bindings.write(&mut buf),
    }));
    let fail = |class: &str, msg: String| json!({"ok": false, "class": class, "message": msg});
    let r = match r {
        Ok(r) => r,
        Err(_) => return fail("panic", crate::job::take_panic().unwrap_or_default()),
    };
    if let Err(e) = r {
        return fail("write-error", format!("{e}"));
    }
    let out = match String::from_utf8(buf) {
        Ok(s) => s,
        Err(_) => return fail("corrupt", "output not UTF-8".into()),
    };
    if !out.starts_with(&p.prefix) {
        return fail("prefix", "header comment / raw lines missing, duplicated or out of order".into());
    }
    let body = &out[p.prefix.len()..];
    // Expected: "model" = scripted fake formatter; "fallback" = spawn cannot
    // succeed; "tokens" = a real formatter: only token identity is demanded.
    let (success, written) = match expect {
        "model" => {
            let (w, code) = fmtscript::model_output_with(
                &fmtscript::parse(script),
                p.unformatted.as_bytes(),
                config.map_or(false, |c| !c.starts_with("nonutf8:")),
            );
            (matches!(code, Some(0) | Some(3)) && std::str::from_utf8(&w).is_ok(), w)
        }
        "tokens" => {
            // A real formatter may add or drop a trailing comma before a closing
            // delimiter when it re-wraps a list (rustfmt's trailing_comma =
            // "Vertical"); that is the external tool's doing, not bindgen's.
            let strip = |t: &str| t.replace(", ) ", ") ");
            return match normalise(body) {
                Ok(t) if strip(&t) == strip(&p.tokens) => json!({"ok": true, "class": "tokens-equal", "differs_from_unformatted": body != p.unformatted}),
                Ok(_) => fail("tokens-differ", "formatted body is not token-identical".into()),
                Err(e) => fail("corrupt", format!("body does not tokenise: {e}")),
            };
        }
        _ => (false, Vec::new()),
    };
    if success {
        if body.as_bytes() != &written[..] {
            return fail("trusted-output", format!("formatter succeeded but body is not its output ({} vs {} bytes)", body.len(), written.len()));
        }
        return json!({"ok": true, "class": "formatted"});
    }
    if body == p.unformatted {
        return json!({"ok": true, "class": "fallback"});
    }
    match normalise(body) {
        Ok(t) if t == p.tokens => json!({"ok": true, "class": "fallback"}),
        Ok(_) => fail("fallback-tokens", "formatter failed but body is not token-identical to the unformatted code".into()),
        Err(e) => fail("fallback-corrupt", format!("formatter failed and body does not tokenise: {e}")),
    }
}
