//! A scripted stand-in for rustfmt (real-process tier of C15). The script comes
//! from $FAKEFMT_SCRIPT because bindgen decides the command line.
#[path = "../fmtscript.rs"]
mod fmtscript;
use fmtscript::*;
use std::io::{Read, Write};
use std::os::fd::FromRawFd;

fn main() {
    let script = std::env::var("FAKEFMT_SCRIPT").unwrap_or_else(|_| "readall;write:echo:all;exit:0".into());
    // Raw fds so that closing really closes them.
    let mut stdin = Some(unsafe { std::fs::File::from_raw_fd(0) });
    let mut stdout = Some(unsafe { std::fs::File::from_raw_fd(1) });
    let mut input = Vec::new();
    for op in parse(&script) {
        match op {
            Op::ReadAll => {
                if let Some(f) = stdin.as_mut() {
                    let _ = f.read_to_end(&mut input);
                }
            }
            Op::Read(n) => {
                if let Some(f) = stdin.as_mut() {
                    let mut buf = vec![0u8; n];
                    let mut got = 0;
                    while got < n {
                        match f.read(&mut buf[got..]) {
                            Ok(0) | Err(_) => break,
                            Ok(k) => got += k,
                        }
                    }
                    input.extend_from_slice(&buf[..got]);
                }
            }
            Op::Read1(n) => {
                if let Some(f) = stdin.as_mut() {
                    let mut b = [0u8; 1];
                    for _ in 0..n {
                        match f.read(&mut b) {
                            Ok(1) => input.push(b[0]),
                            _ => break,
                        }
                    }
                }
            }
            Op::Write(k, p) => {
                if let Some(f) = stdout.as_mut() {
                    let _ = f.write_all(&payload(&k, &p, &input));
                }
            }
            Op::CloseIn => stdin = None,
            Op::CloseOut => stdout = None,
            Op::Exit(c) => {
                drop(stdin.take());
                drop(stdout.take());
                unsafe { libc::_exit(c) }
            }
            Op::FailIfConfig => {
                if std::env::args().any(|a| a == "--config-path") {
                    if let Some(f) = stdout.as_mut() {
                        let _ = f.write_all(&payload("formatted", "half", &input));
                    }
                    drop(stdin.take());
                    drop(stdout.take());
                    unsafe { libc::_exit(1) }
                }
            }
            Op::Kill(sig) => unsafe {
                // Rust's runtime handles SIGSEGV/SIGBUS itself; die the default way.
                libc::signal(sig, libc::SIG_DFL);
                libc::kill(libc::getpid(), sig);
                libc::pause();
            },
        }
    }
    drop(stdin.take());
    drop(stdout.take());
    unsafe { libc::_exit(0) }
}
