//! Small shared helpers: PRNG, fingerprints, JSON accessors.
use serde_json::Value;
use std::hash::Hasher;

/// SplitMix64: the only PRNG of the driver. One stream per case.
#[derive(Clone, Debug)]
pub struct Rng(pub u64);

impl Rng {
    pub fn new(seed: u64) -> Rng {
        Rng(seed)
    }
    pub fn next(&mut self) -> u64 {
        self.0 = self.0.wrapping_add(0x9E37_79B9_7F4A_7C15);
        let mut z = self.0;
        z = (z ^ (z >> 30)).wrapping_mul(0xBF58_476D_1CE4_E5B9);
        z = (z ^ (z >> 27)).wrapping_mul(0x94D0_49BB_1331_11EB);
        z ^ (z >> 31)
    }
    pub fn below(&mut self, n: u64) -> u64 {
        if n == 0 {
            0
        } else {
            self.next() % n
        }
    }
    pub fn chance(&mut self, permille: u64) -> bool {
        self.below(1000) < permille
    }
    pub fn pick<'a, T>(&mut self, xs: &'a [T]) -> &'a T {
        &xs[self.below(xs.len() as u64) as usize]
    }
    pub fn derive(&self, tag: u64) -> Rng {
        let mut r = Rng(self.0 ^ tag.wrapping_mul(0xD6E8_FEB8_6659_FD93));
        r.next();
        r
    }
}

/// 128-bit fingerprint (two keyed SipHash-1-3 passes of std), hex.
pub fn fp(bytes: &[u8]) -> String {
    #[allow(deprecated)]
    let mut a = std::hash::SipHasher::new_with_keys(0x6276_7369_6d5f_6b30, 1);
    #[allow(deprecated)]
    let mut b = std::hash::SipHasher::new_with_keys(0x6276_7369_6d5f_6b31, 2);
    a.write(bytes);
    b.write(bytes);
    format!("{:016x}{:016x}", a.finish(), b.finish())
}

pub fn fp64(bytes: &[u8]) -> u64 {
    #[allow(deprecated)]
    let mut a = std::hash::SipHasher::new_with_keys(0x6276_7369_6d5f_6b32, 3);
    a.write(bytes);
    a.finish()
}

pub fn jstr<'a>(v: &'a Value, k: &str) -> Option<&'a str> {
    v.get(k).and_then(|x| x.as_str())
}
pub fn ju64(v: &Value, k: &str) -> Option<u64> {
    v.get(k).and_then(|x| x.as_u64())
}
pub fn jbool(v: &Value, k: &str) -> bool {
    v.get(k).and_then(|x| x.as_bool()).unwrap_or(false)
}
pub fn jstrs(v: &Value, k: &str) -> Vec<String> {
    v.get(k)
        .and_then(|x| x.as_array())
        .map(|a| {
            a.iter()
                .filter_map(|s| s.as_str().map(|s| s.to_string()))
                .collect()
        })
        .unwrap_or_default()
}
