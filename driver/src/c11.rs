//! C11 history/thread simulation: real OS threads calling the real
//! `Builder::generate`, released one at a time at `verif_point!` yield points
//! by a seeded scheduler (who runs is never the OS's decision).
use crate::job::{run_job, Job, RunOpts};
use crate::util::*;
use serde_json::{json, Value};
use std::cell::Cell;
use std::collections::BTreeMap;
use std::sync::{Arc, Condvar, Mutex};

thread_local! {
    static ACTOR: Cell<Option<usize>> = const { Cell::new(None) };
}

struct State {
    n: usize,
    registered: usize,
    current: Option<usize>,
    finished: Vec<bool>,
    rng: Rng,
    switch_permille: u64,
    /// PCT-style: priorities per actor and remaining change points (decision
    /// indices at which the running actor's priority drops to the bottom).
    pct: Option<(Vec<u64>, Vec<u64>)>,
    decision: u64,
    /// sparse decision trace: (decision index, chosen actor) where the choice
    /// differs from the default (keep running / lowest-numbered live actor)
    trace: Vec<(u64, usize)>,
    forced: Option<BTreeMap<u64, usize>>,
    forced_mismatch: Option<String>,
    fingerprint: u64,
    events: u64,
    switches: u64,
    labels: BTreeMap<&'static str, u64>,
    /// Set by the watchdog when no scheduler event happened for a long time
    /// while actors were parked: the running actor is blocked on something a
    /// parked actor holds (a lock taken across a yield point). All actors are
    /// then released and finish free-running; the results are still judged.
    released: bool,
    progress: u64,
    done: bool,
}

pub struct Sched {
    st: Mutex<State>,
    cv: Condvar,
}

fn mix(h: &mut u64, v: u64) {
    *h ^= v.wrapping_add(0x9E37_79B9_7F4A_7C15).wrapping_add(*h << 6).wrapping_add(*h >> 2);
}

impl Sched {
    fn live_others(st: &State, me: Option<usize>) -> Vec<usize> {
        (0..st.n).filter(|&a| !st.finished[a] && Some(a) != me).collect()
    }

    /// Decide who runs next. `me` is the actor giving up the token (None when it
    /// has finished).
    fn choose(st: &mut State, me: Option<usize>) -> Option<usize> {
        let idx = st.decision;
        st.decision += 1;
        let others = Self::live_others(st, me);
        let default = match me {
            Some(a) => Some(a),
            None => others.first().copied(),
        };
        if others.is_empty() {
            return default;
        }
        let chosen = if let Some(forced) = &st.forced {
            match forced.get(&idx) {
                Some(&a) if a < st.n && !st.finished[a] => Some(a),
                Some(&a) => {
                    st.forced_mismatch = Some(format!("decision {idx}: actor {a} is not runnable"));
                    default
                }
                None => default,
            }
        } else if let Some((prio, points)) = st.pct.as_mut() {
            if let Some(a) = me {
                if points.first() == Some(&idx) {
                    points.remove(0);
                    let min = prio.iter().copied().min().unwrap_or(0);
                    prio[a] = min.saturating_sub(1);
                }
            }
            let mut cands = others.clone();
            if let Some(a) = me {
                cands.push(a);
            }
            cands.into_iter().max_by_key(|&a| prio[a])
        } else if me.is_none() || st.rng.chance(st.switch_permille) {
            Some(*st.rng.pick(&others))
        } else {
            default
        };
        if chosen != default {
            if let Some(c) = chosen {
                st.trace.push((idx, c));
            }
        }
        if chosen != me && me.is_some() {
            st.switches += 1;
        }
        chosen
    }

    fn enter(&self, actor: usize) {
        ACTOR.with(|a| a.set(Some(actor)));
        let mut st = self.st.lock().unwrap();
        st.registered += 1;
        if st.registered == st.n {
            // everybody is parked at the start line: first decision
            let first = Self::choose(&mut st, None);
            st.current = first;
            self.cv.notify_all();
        }
        while st.current != Some(actor) && !st.released {
            st = self.cv.wait(st).unwrap();
        }
    }

    fn yield_point(&self, label: &'static str) {
        let Some(me) = ACTOR.with(|a| a.get()) else { return };
        let mut st = self.st.lock().unwrap();
        if st.released || st.current != Some(me) {
            // not under the scheduler's control (released by the watchdog)
            return;
        }
        st.progress += 1;
        *st.labels.entry(label).or_insert(0) += 1;
        st.events += 1;
        let mut h = st.fingerprint;
        mix(&mut h, me as u64);
        mix(&mut h, fp64(label.as_bytes()));
        st.fingerprint = h;
        let next = Self::choose(&mut st, Some(me));
        if next != Some(me) {
            st.current = next;
            self.cv.notify_all();
            while st.current != Some(me) && !st.released {
                st = self.cv.wait(st).unwrap();
            }
        }
    }

    fn exit(&self, actor: usize) {
        let mut st = self.st.lock().unwrap();
        st.finished[actor] = true;
        st.progress += 1;
        let mut h = st.fingerprint;
        mix(&mut h, 0xE000 + actor as u64);
        st.fingerprint = h;
        let next = Self::choose(&mut st, None);
        st.current = next;
        ACTOR.with(|a| a.set(None));
        self.cv.notify_all();
    }
}

fn opts_from(v: &Value) -> RunOpts {
    RunOpts {
        fix: v.get("fix").filter(|f| !f.is_null()).map(crate::job::fix_config_from_json),
        want_text: false,
        want_inventory: false,
        arm_steps: false,
    }
}

/// op "c11": `threads` is a list of job lists; with `sched` the threads are
/// interleaved deterministically, without it they run freely in parallel.
pub fn op_scenario(req: &Value) -> Value {
    crate::job::install_panic_hook();
    let threads: Vec<Vec<Value>> = req["threads"]
        .as_array()
        .map(|a| a.iter().map(|t| t.as_array().cloned().unwrap_or_default()).collect())
        .unwrap_or_default();
    let n = threads.len();
    // Load libclang before any actor exists: its one-time initialiser runs
    // external commands (llvm-config) inside a `OnceLock`, and a thread parked
    // at a syscall-level yield point there would hold the `Once` against every
    // other actor. (The per-thread part of `ensure_libclang_is_loaded` still
    // runs, and is interleaved, in every actor.)
    // Only when a scheduler will park threads: histories and free-running
    // scenarios must see the real first-load / last-unload life cycle of the
    // library (a main thread that holds a handle would keep it alive forever).
    if req.get("sched").map_or(false, |s| !s.is_null()) {
        let _ = bindgen::clang_version();
    }
    bindgen::verif::salt::set(ju64(req, "salt").unwrap_or(0));
    if let Some(seed) = ju64(req, "hash_seed") {
        reseed_getrandom(seed);
    }
    let sched_cfg = req.get("sched").filter(|s| !s.is_null());
    let sched = sched_cfg.map(|cfg| {
        let seed = ju64(cfg, "seed").unwrap_or(1);
        let forced = cfg.get("forced").and_then(|f| f.as_array()).map(|a| {
            a.iter()
                .filter_map(|e| Some((e.get(0)?.as_u64()?, e.get(1)?.as_u64()? as usize)))
                .collect::<BTreeMap<_, _>>()
        });
        let mut rng = Rng::new(seed);
        let pct = ju64(cfg, "pct_depth").filter(|d| *d > 0).map(|d| {
            let mut prio: Vec<u64> = (0..n as u64).map(|i| 1000 + i).collect();
            for i in (1..prio.len()).rev() {
                let j = rng.below(i as u64 + 1) as usize;
                prio.swap(i, j);
            }
            let horizon = ju64(cfg, "pct_horizon").unwrap_or(400);
            let mut points: Vec<u64> = (0..d - 1).map(|_| 1 + rng.below(horizon)).collect();
            points.sort();
            points.dedup();
            (prio, points)
        });
        Arc::new(Sched {
            st: Mutex::new(State {
                n,
                registered: 0,
                current: None,
                finished: vec![false; n],
                rng,
                switch_permille: ju64(cfg, "switch_permille").unwrap_or(100),
                pct,
                decision: 0,
                trace: Vec::new(),
                forced,
                forced_mismatch: None,
                fingerprint: 0xcbf2_9ce4_8422_2325,
                events: 0,
                switches: 0,
                labels: BTreeMap::new(),
                released: false,
                progress: 0,
                done: false,
            }),
            cv: Condvar::new(),
        })
    });
    if let Some(s) = &sched {
        let s2 = s.clone();
        bindgen::verif::sched::install(Arc::new(move |label| s2.yield_point(label)));
        *SYS_SCHED.lock().unwrap() = Some(s.clone());
        set_sys_hook(true);
        // watchdog: wall-clock only decides *whether* to give up scheduling a
        // scenario, never an interleaving that is reported as replayable
        let s3 = s.clone();
        let limit_ms = std::env::var("BVSIM_SCHED_STALL_MS").ok().and_then(|v| v.parse().ok()).unwrap_or(30_000u64);
        std::thread::spawn(move || {
            let mut last = 0u64;
            let mut idle = 0u64;
            loop {
                std::thread::sleep(std::time::Duration::from_millis(250));
                let mut st = s3.st.lock().unwrap();
                if st.done || st.released {
                    return;
                }
                if st.progress != last || st.registered < st.n {
                    last = st.progress;
                    idle = 0;
                    continue;
                }
                idle += 250;
                let parked = (0..st.n).filter(|&a| !st.finished[a] && st.current != Some(a)).count();
                if idle >= limit_ms && parked > 0 {
                    st.released = true;
                    s3.cv.notify_all();
                    return;
                }
            }
        });
    }
    let results: Arc<Mutex<Vec<Vec<Value>>>> = Arc::new(Mutex::new(vec![Vec::new(); n]));
    let mut handles = Vec::new();
    for (t, jobs) in threads.into_iter().enumerate() {
        let sched = sched.clone();
        let results = results.clone();
        handles.push(
            std::thread::Builder::new()
                .stack_size(64 << 20)
                .spawn(move || {
                    if let Some(s) = &sched {
                        s.enter(t);
                    }
                    let mut out = Vec::new();
                    for jv in &jobs {
                        let job = Job::from_json(jv);
                        let obs = run_job(&job, &opts_from(jv));
                        out.push(obs);
                    }
                    results.lock().unwrap()[t] = out;
                    if let Some(s) = &sched {
                        s.exit(t);
                    }
                })
                .unwrap(),
        );
    }
    let mut thread_panics = 0;
    for h in handles {
        if h.join().is_err() {
            thread_panics += 1;
        }
    }
    bindgen::verif::sched::uninstall();
    set_sys_hook(false);
    *SYS_SCHED.lock().unwrap() = None;
    bindgen::verif::salt::set(0);
    let results = results.lock().unwrap().clone();
    let mut out = json!({"results": results, "thread_panics": thread_panics});
    if let Some(s) = &sched {
        let mut st = s.st.lock().unwrap();
        st.done = true;
        out["sched"] = json!({
            "deadlock_released": st.released,
            "fingerprint": format!("{:016x}", st.fingerprint),
            "events": st.events,
            "switches": st.switches,
            "decisions": st.decision,
            "trace": st.trace.iter().map(|(i, a)| json!([i, a])).collect::<Vec<_>>(),
            "labels": st.labels.iter().map(|(k, v)| (k.to_string(), json!(v))).collect::<serde_json::Map<_, _>>(),
            "forced_mismatch": st.forced_mismatch,
        });
    }
    out
}


/// Re-seed the getrandom stub of the LD_PRELOAD shim, if it is loaded.
pub fn reseed_getrandom(seed: u64) -> bool {
    unsafe {
        let sym = libc::dlsym(libc::RTLD_DEFAULT, c"bvsim_getrandom_reseed".as_ptr());
        if sym.is_null() {
            return false;
        }
        let f: extern "C" fn(u64) = std::mem::transmute(sym);
        f(seed);
        true
    }
}


static SYS_SCHED: Mutex<Option<Arc<Sched>>> = Mutex::new(None);

/// Called by the LD_PRELOAD shim before file-creating/renaming/removing calls
/// made by the driver binary: a yield point at the file-system seam, so that
/// code without `verif_point!`s is still interleaved where generations can
/// collide on shared files.
extern "C" fn sys_hook(op: *const libc::c_char, path: *const libc::c_char) {
    if ACTOR.with(|a| a.get()).is_none() {
        return;
    }
    let (op, path) = unsafe {
        (
            std::ffi::CStr::from_ptr(op).to_bytes(),
            std::ffi::CStr::from_ptr(path).to_bytes(),
        )
    };
    // only files a generation may share with its neighbours: the scenario's
    // scratch directories and anything relative to the working directory
    let process_op = op == b"spawn" || op == b"wait";
    let shared = process_op || !path.starts_with(b"/") || path.windows(9).any(|w| w == b"bvsim-c11");
    if !shared {
        return;
    }
    let label: &'static str = match op {
        b"rename" => "sys.rename",
        b"unlink" => "sys.unlink",
        b"spawn" => "sys.spawn",
        b"wait" => "sys.wait",
        _ => "sys.open-write",
    };
    let sched = SYS_SCHED.lock().unwrap().clone();
    if let Some(s) = sched {
        s.yield_point(label);
    }
}

fn set_sys_hook(on: bool) {
    unsafe {
        let sym = libc::dlsym(libc::RTLD_DEFAULT, c"bvsim_set_sys_hook".as_ptr());
        if sym.is_null() {
            return;
        }
        type Hook = extern "C" fn(*const libc::c_char, *const libc::c_char);
        let f: extern "C" fn(Option<Hook>) = std::mem::transmute(sym);
        f(if on { Some(sys_hook) } else { None });
    }
}
