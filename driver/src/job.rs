//! One generation: build a `Builder` from a job description, run it under the
//! installed seams, and describe what was observed.
use crate::util::*;
use bindgen::callbacks::{
    DeriveInfo, DeriveTrait, DiscoveredItem, DiscoveredItemId, ImplementsTrait,
    IntKind, ItemInfo, ParseCallbacks, SourceLocation,
};
use bindgen::verif::fixpoint as fx;
use serde_json::{json, Value};
use std::cell::RefCell;
use std::collections::BTreeMap;
use std::panic::{catch_unwind, AssertUnwindSafe};
use std::sync::{Arc, Mutex, Once};

#[derive(Clone, Debug, Default)]
pub struct Job {
    pub id: String,
    pub header: Option<String>,
    /// Input headers given through `Builder::header` (library use with several
    /// `.header()` calls; the command line only ever has one).
    pub headers: Vec<String>,
    pub contents: Vec<(String, String)>,
    pub flags: Vec<String>,
    /// Prepend the flags the repository's own test harness prepends.
    pub corpus: bool,
    /// Attach the logging parse callbacks.
    pub callbacks: bool,
    /// Directory substituted for `@OUT@` in flags; its files are observed.
    pub outdir: Option<String>,
    /// Individual files to observe after the run (e.g. in a directory shared
    /// with other generations); a missing file is an observation too.
    pub watch: Vec<String>,
}

impl Job {
    pub fn from_json(v: &Value) -> Job {
        Job {
            id: jstr(v, "id").unwrap_or("").to_string(),
            header: jstr(v, "header").map(|s| s.to_string()),
            headers: jstrs(v, "headers"),
            contents: v
                .get("contents")
                .and_then(|c| c.as_array())
                .map(|a| {
                    a.iter()
                        .filter_map(|p| {
                            Some((
                                p.get(0)?.as_str()?.to_string(),
                                p.get(1)?.as_str()?.to_string(),
                            ))
                        })
                        .collect()
                })
                .unwrap_or_default(),
            flags: jstrs(v, "flags"),
            corpus: jbool(v, "corpus"),
            callbacks: jbool(v, "callbacks"),
            outdir: jstr(v, "outdir").map(|s| s.to_string()),
            watch: jstrs(v, "watch"),
        }
    }

    pub fn args(&self, outdir: Option<&str>) -> Vec<String> {
        let mut args: Vec<String> = vec!["bindgen".into()];
        if self.corpus {
            for a in [
                "--formatter=none",
                "--with-derive-default",
                "--disable-header-comment",
                "--vtable-generation",
            ] {
                args.push(a.into());
            }
        }
        if let Some(h) = &self.header {
            args.push(h.clone());
        }
        let mut flags = self.flags.clone();
        if self.corpus && flags.iter().all(|f| !f.starts_with("--target=")) {
            if !flags.iter().any(|f| f == "--") {
                flags.push("--".into());
            }
            flags.push("--target=x86_64-unknown-linux".into());
        }
        for f in flags {
            match outdir {
                Some(o) => args.push(f.replace("@OUT@", o)),
                None => args.push(f),
            }
        }
        args
    }
}

#[derive(Clone, Debug, Default)]
pub struct RunOpts {
    pub fix: Option<fx::Config>,
    pub want_text: bool,
    pub want_inventory: bool,
    pub arm_steps: bool,
}

thread_local! {
    static LAST_PANIC: RefCell<Option<String>> = const { RefCell::new(None) };
    pub static QUIET_PANICS: RefCell<bool> = const { RefCell::new(true) };
}

pub fn install_panic_hook() {
    static ONCE: Once = Once::new();
    ONCE.call_once(|| {
        let prev = std::panic::take_hook();
        std::panic::set_hook(Box::new(move |info| {
            let loc = info
                .location()
                .map(|l| format!("{}:{}", l.file(), l.line()))
                .unwrap_or_default();
            let msg = if let Some(s) = info.payload().downcast_ref::<&str>() {
                (*s).to_string()
            } else if let Some(s) = info.payload().downcast_ref::<String>() {
                s.clone()
            } else {
                "<non-string panic>".to_string()
            };
            LAST_PANIC.with(|p| {
                *p.borrow_mut() = Some(format!("{loc}: {msg}"));
            });
            if !QUIET_PANICS.with(|q| *q.borrow()) {
                prev(info);
            }
        }));
    });
}

pub fn take_panic() -> Option<String> {
    LAST_PANIC.with(|p| p.borrow_mut().take())
}

/// Parse callbacks that only record that they were notified.
#[derive(Debug, Clone)]
pub struct LogCallbacks(pub Arc<Mutex<Vec<String>>>);

impl LogCallbacks {
    fn log(&self, s: String) {
        self.0.lock().unwrap().push(s);
    }
}

impl ParseCallbacks for LogCallbacks {
    fn int_macro(&self, name: &str, value: i64) -> Option<IntKind> {
        self.log(format!("int_macro {name} {value}"));
        None
    }
    fn str_macro(&self, name: &str, value: &[u8]) {
        self.log(format!("str_macro {name} {value:?}"));
    }
    fn func_macro(&self, name: &str, value: &[&[u8]]) {
        self.log(format!("func_macro {name} {value:?}"));
    }
    fn item_name(&self, info: ItemInfo) -> Option<String> {
        self.log(format!("item_name {} {:?}", info.name, info.kind));
        None
    }
    fn header_file(&self, filename: &str) {
        self.log(format!("header_file {filename}"));
    }
    fn include_file(&self, filename: &str) {
        self.log(format!("include_file {filename}"));
    }
    fn read_env_var(&self, key: &str) {
        self.log(format!("read_env_var {key}"));
    }
    fn add_derives(&self, info: &DeriveInfo<'_>) -> Vec<String> {
        self.log(format!("add_derives {} {:?}", info.name, info.kind));
        vec![]
    }
    /// A fixed function of (name, trait): every answer the API allows occurs.
    fn blocklisted_type_implements_trait(
        &self,
        name: &str,
        derive_trait: DeriveTrait,
    ) -> Option<ImplementsTrait> {
        let h = fp64(format!("{name}/{derive_trait:?}").as_bytes()) % 4;
        self.log(format!("blocklisted_type_implements_trait {name} {derive_trait:?} -> {h}"));
        match h {
            0 => None,
            1 => Some(ImplementsTrait::Yes),
            2 => Some(ImplementsTrait::Manually),
            _ => Some(ImplementsTrait::No),
        }
    }
    fn new_item_found(
        &self,
        id: DiscoveredItemId,
        item: DiscoveredItem,
        _loc: Option<&SourceLocation>,
    ) {
        self.log(format!("new_item_found {id:?} {item:?}"));
    }
}

fn fact_json(f: &Option<fx::Fact>) -> Value {
    match f {
        None => Value::Null,
        Some(f) => json!({"rank": f.rank, "text": f.text}),
    }
}

fn diff_json(d: &fx::Diff) -> Value {
    json!({"analysis": d.analysis, "item": d.item,
           "production": fact_json(&d.production), "reference": fact_json(&d.reference)})
}

pub fn event_json(p: u64, e: &fx::Event) -> Value {
    match e {
        fx::Event::Stutter { node } => json!([p, {"stutter": node}]),
        fx::Event::Tail { tail } => json!([p, {"tail": tail}]),
    }
}

pub fn report_json(r: &fx::Report) -> Value {
    let runs: Vec<Value> = r
        .runs
        .iter()
        .map(|s| {
            json!({
                "analysis": s.analysis, "initial": s.initial, "nodes": s.nodes,
                "pops": s.pops, "pushes": s.pushes, "changes": s.changes,
                "stutters": s.stutters, "dups": s.dups, "reorders": s.reorders,
                "dedups": s.dedups, "random_pops": s.random_pops,
                "maxc": s.max_changes_per_node, "height": s.height,
                "oscillation": s.oscillation,
                "order_fp": format!("{:016x}", s.order_fp),
                "order": s.order,
                "facts": s.facts, "facts_fp": format!("{:016x}", s.facts_fp),
                "facts_dump": s.facts_dump,
                "ref_ran": s.reference_ran, "ref_sweeps": s.reference_sweeps,
                "ref_evals": s.reference_evals,
                "nonconfluent": s.reference_nonconfluent,
                "diffs": s.diffs.iter().map(diff_json).collect::<Vec<_>>(),
            })
        })
        .collect();
    json!({
        "runs": runs,
        "events": r.events.iter().map(|(p, e)| event_json(*p, e)).collect::<Vec<_>>(),
        "points": r.points,
        "consults": r.consults,
        "consulted_diffs": r.consulted_diffs.iter().map(diff_json).collect::<Vec<_>>(),
        "forced_mismatch": r.forced_mismatch,
    })
}

pub fn fix_config_from_json(v: &Value) -> fx::Config {
    let p = |k: &str| ju64(v, k).unwrap_or(0) as u32;
    let forced = v.get("forced").and_then(|f| f.as_array()).map(|a| {
        let mut m = BTreeMap::new();
        for e in a {
            let (Some(point), Some(ev)) =
                (e.get(0).and_then(|x| x.as_u64()), e.get(1))
            else {
                continue;
            };
            if let Some(n) = ev.get("stutter").and_then(|x| x.as_u64()) {
                m.insert(point, fx::Event::Stutter { node: n as usize });
            } else if let Some(t) = ev.get("tail").and_then(|x| x.as_array()) {
                m.insert(
                    point,
                    fx::Event::Tail {
                        tail: t
                            .iter()
                            .filter_map(|x| x.as_u64().map(|x| x as usize))
                            .collect(),
                    },
                );
            }
        }
        m
    });
    fx::Config {
        seed: ju64(v, "seed").unwrap_or(0),
        stutter_permille: p("stutter"),
        dup_permille: p("dup"),
        reorder_permille: p("reorder"),
        dedup_permille: p("dedup"),
        random_pop_permille: p("random_pop"),
        reference: jbool(v, "reference"),
        forced,
        record_order: jbool(v, "record_order"),
    }
}

/// Per-item inventory of a bindings text: `(key, normalised token text)`.
pub fn inventory(text: &str) -> Result<Vec<(String, String)>, String> {
    use quote_like::ts;
    let file = syn::parse_file(text).map_err(|e| format!("syn: {e}"))?;
    let mut out = Vec::new();
    fn walk(
        items: &[syn::Item],
        path: &str,
        out: &mut Vec<(String, String)>,
    ) {
        for it in items {
            match it {
                syn::Item::Mod(m) => {
                    let p = format!("{path}{}::", m.ident);
                    if let Some((_, items)) = &m.content {
                        walk(items, &p, out);
                    }
                }
                syn::Item::ForeignMod(fm) => {
                    let abi = ts(&fm.abi);
                    let attrs: String =
                        fm.attrs.iter().map(|a| ts(a)).collect::<Vec<_>>().join(" ");
                    for fi in &fm.items {
                        let name = match fi {
                            syn::ForeignItem::Fn(f) => f.sig.ident.to_string(),
                            syn::ForeignItem::Static(s) => s.ident.to_string(),
                            syn::ForeignItem::Type(t) => t.ident.to_string(),
                            _ => "?".into(),
                        };
                        out.push((
                            format!("extern {path}{name}"),
                            format!("{attrs} {abi} {{ {} }}", ts(fi)),
                        ));
                    }
                }
                syn::Item::Struct(s) => {
                    out.push((format!("struct {path}{}", s.ident), ts(it)))
                }
                syn::Item::Union(s) => {
                    out.push((format!("union {path}{}", s.ident), ts(it)))
                }
                syn::Item::Enum(s) => {
                    out.push((format!("enum {path}{}", s.ident), ts(it)))
                }
                syn::Item::Type(s) => {
                    out.push((format!("type {path}{}", s.ident), ts(it)))
                }
                syn::Item::Const(s) => {
                    let t = ts(it);
                    let key = if s.ident == "_" {
                        // layout assertion block: key by its text
                        format!("const _ {path}{:016x}", fp64(t.as_bytes()))
                    } else {
                        format!("const {path}{}", s.ident)
                    };
                    out.push((key, t))
                }
                syn::Item::Static(s) => {
                    out.push((format!("static {path}{}", s.ident), ts(it)))
                }
                syn::Item::Fn(s) => {
                    out.push((format!("fn {path}{}", s.sig.ident), ts(it)))
                }
                syn::Item::Impl(s) => {
                    let tr = s
                        .trait_
                        .as_ref()
                        .map(|(_, p, _)| ts(p))
                        .unwrap_or_default();
                    out.push((
                        format!("impl {path}{} for {}", tr, ts(&*s.self_ty)),
                        ts(it),
                    ))
                }
                other => out.push((format!("other {path}"), ts(other))),
            }
        }
    }
    walk(&file.items, "", &mut out);
    out.sort();
    Ok(out)
}

mod quote_like {
    /// Token text of any syn node.
    pub fn ts<T: quote::ToTokens>(t: &T) -> String {
        let mut s = proc_macro2::TokenStream::new();
        t.to_tokens(&mut s);
        s.to_string()
    }
}

fn side_outputs(outdir: &str) -> (String, usize) {
    let mut files: Vec<(String, Vec<u8>)> = Vec::new();
    fn walk(dir: &std::path::Path, base: &str, out: &mut Vec<(String, Vec<u8>)>) {
        let Ok(rd) = std::fs::read_dir(dir) else { return };
        for e in rd.flatten() {
            let p = e.path();
            if p.is_dir() {
                walk(&p, base, out);
            } else if let Ok(bytes) = std::fs::read(&p) {
                let rel = p.to_string_lossy().replace(base, "@OUT@");
                out.push((rel, bytes));
            }
        }
    }
    walk(std::path::Path::new(outdir), outdir, &mut files);
    files.sort();
    let mut all = Vec::new();
    for (name, bytes) in &files {
        all.extend_from_slice(name.as_bytes());
        all.push(0);
        let text = String::from_utf8_lossy(bytes).replace(outdir, "@OUT@");
        all.extend_from_slice(text.as_bytes());
        all.push(0);
    }
    (fp(&all), files.len())
}

/// Run one generation and describe the outcome.
pub fn run_job(job: &Job, opts: &RunOpts) -> Value {
    install_panic_hook();
    let t0 = std::time::Instant::now();
    let log = Arc::new(Mutex::new(Vec::new()));
    let outdir = job.outdir.clone();
    if let Some(o) = &outdir {
        let _ = std::fs::remove_dir_all(o);
        let _ = std::fs::create_dir_all(o);
    }
    let args = job.args(outdir.as_deref());
    take_panic();

    if let Some(cfg) = &opts.fix {
        fx::install(cfg.clone());
    }
    bindgen::verif::steps::arm(opts.arm_steps);
    let result = catch_unwind(AssertUnwindSafe(|| {
        let mut builder = if job.header.is_none() && (!job.headers.is_empty() || !job.contents.is_empty()) {
            // Library use with several `.header()` calls: the command-line
            // parser insists on exactly one header, so build the Builder
            // directly (only the clang arguments after `--` are honoured).
            let mut b = bindgen::builder()
                .formatter(bindgen::Formatter::None)
                .disable_header_comment();
            for h in &job.headers {
                b = b.header(h.clone());
            }
            let split = job.flags.iter().position(|f| f == "--").unwrap_or(job.flags.len());
            let mut k = 0;
            while k < split {
                match job.flags[k].as_str() {
                    "--clang-macro-fallback" => b = b.clang_macro_fallback(),
                    "--clang-macro-fallback-build-dir" => {
                        k += 1;
                        b = b.clang_macro_fallback_build_dir(job.flags[k].clone());
                    }
                    "--generate-inline-functions" => b = b.generate_inline_functions(true),
                    _ => {}
                }
                k += 1;
            }
            if split < job.flags.len() {
                b = b.clang_args(job.flags[split + 1..].iter().cloned());
            }
            b
        } else {
            bindgen::builder_from_flags(args.into_iter())
                .map_err(|e| format!("flags: {e}"))?
                .0
        };
        for (name, text) in &job.contents {
            builder = builder.header_contents(name, text);
        }
        if job.callbacks {
            builder =
                builder.parse_callbacks(Box::new(LogCallbacks(log.clone())));
        }
        match builder.generate() {
            Ok(b) => {
                let text = b.to_string();
                Ok(text)
            }
            Err(e) => Err(format!("{e:?}")),
        }
    }));
    let steps_ratio = bindgen::verif::steps::max_ratio_permille();
    bindgen::verif::steps::arm(false);
    let report = if opts.fix.is_some() { fx::take() } else { None };

    let mut out = json!({"id": job.id});
    match result {
        Ok(Ok(text)) => {
            out["kind"] = json!("ok");
            out["fp"] = json!(fp(text.as_bytes()));
            out["len"] = json!(text.len());
            if opts.want_inventory {
                match inventory(&text) {
                    Ok(inv) => out["inv"] = json!(inv),
                    Err(e) => out["inv_err"] = json!(e),
                }
            }
            if opts.want_text {
                out["text"] = json!(text);
            }
        }
        Ok(Err(e)) => {
            out["kind"] = json!("err");
            out["err"] = json!(e);
            out["fp"] = json!(fp(e.as_bytes()));
        }
        Err(_) => {
            out["kind"] = json!("panic");
            out["err"] = json!(take_panic().unwrap_or_default());
        }
    }
    if job.callbacks {
        let l = log.lock().unwrap();
        out["cb_n"] = json!(l.len());
        out["cb_fp"] = json!(fp(l.join("\n").as_bytes()));
        if opts.want_text {
            out["cb_log"] = json!(l.clone());
        }
    }
    if let Some(o) = &outdir {
        let (sfp, n) = side_outputs(o);
        out["side_fp"] = json!(sfp);
        out["side_n"] = json!(n);
        let _ = std::fs::remove_dir_all(o);
    }
    if !job.watch.is_empty() {
        let mut all = Vec::new();
        for w in &job.watch {
            let base = std::path::Path::new(w).parent().map(|p| p.to_string_lossy().to_string()).unwrap_or_default();
            all.extend_from_slice(std::path::Path::new(w).file_name().map(|n| n.to_string_lossy().to_string()).unwrap_or_default().as_bytes());
            all.push(0);
            match std::fs::read(w) {
                Ok(bytes) => all.extend_from_slice(String::from_utf8_lossy(&bytes).replace(&base, "@DIR@").as_bytes()),
                Err(_) => all.extend_from_slice(b"<missing>"),
            }
            all.push(0);
        }
        out["side_fp"] = json!(fp(&all));
        out["side_n"] = json!(job.watch.len());
    }
    if let Some(r) = report {
        out["fix"] = report_json(&r);
    }
    out["steps_ratio"] = json!(steps_ratio);
    out["ms"] = json!(t0.elapsed().as_millis() as u64);
    out
}
