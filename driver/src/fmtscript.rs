//! The script language of the fake formatter, shared by the `fakefmt` binary
//! (real-process tier) and the driver's model of it.
//!
//! `readall` | `read:N` | `read1:N` (N one-byte reads) | `write:KIND:PART` |
//! `closein` | `closeout` | `exit:N` | `kill:SIG`, separated by `;`.
//! KIND: echo | formatted | garbage | badutf8 | big (2 MiB of comment text);
//! PART: all | half | none.

#[derive(Clone, Debug, PartialEq)]
pub enum Op {
    ReadAll,
    Read(usize),
    Read1(usize),
    Write(String, String),
    CloseIn,
    CloseOut,
    Exit(i32),
    Kill(i32),
    /// If the command line has `--config-path`: write half of the formatted
    /// input and exit 1; otherwise carry on with the script.
    FailIfConfig,
}

pub fn parse(s: &str) -> Vec<Op> {
    s.split(';')
        .filter_map(|t| {
            let t = t.trim();
            let p: Vec<&str> = t.split(':').collect();
            Some(match p[0] {
                "readall" => Op::ReadAll,
                "read" => Op::Read(p.get(1)?.parse().ok()?),
                "read1" => Op::Read1(p.get(1)?.parse().ok()?),
                "write" => Op::Write(p.get(1)?.to_string(), p.get(2).unwrap_or(&"all").to_string()),
                "closein" => Op::CloseIn,
                "closeout" => Op::CloseOut,
                "exit" => Op::Exit(p.get(1)?.parse().ok()?),
                "kill" => Op::Kill(p.get(1)?.parse().ok()?),
                "failifconfig" => Op::FailIfConfig,
                _ => return None,
            })
        })
        .collect()
}

pub fn reformat(input: &[u8]) -> Vec<u8> {
    let mut out = Vec::with_capacity(input.len() + input.len() / 8);
    for &b in input {
        out.push(b);
        if b == b';' || b == b'{' || b == b'}' {
            out.push(b'\n');
        }
    }
    out
}

pub fn payload(kind: &str, part: &str, input: &[u8]) -> Vec<u8> {
    let mut data: Vec<u8> = match kind {
        "echo" => input.to_vec(),
        "formatted" => reformat(input),
        "garbage" => b"fn ( { this is not rust ] ]] \xc3\xa9\n".repeat(7),
        "badutf8" => {
            let mut d = reformat(input);
            d.extend_from_slice(b"\xff\xfe\xc0 broken");
            d
        }
        "big" => b"// filler line of the fake formatter, sixty-four bytes long.....\n".repeat(32768),
        _ => Vec::new(),
    };
    match part {
        "half" => data.truncate(data.len() / 2),
        "none" => data.clear(),
        _ => {}
    }
    data
}

/// What a child running `ops` writes to stdout when its stdin carries `input`
/// and nobody closes its stdout early (the model used by the oracle).
#[allow(dead_code)]
pub fn model_output(ops: &[Op], input: &[u8]) -> (Vec<u8>, Option<i32>) {
    model_output_with(ops, input, false)
}

/// `has_config`: whether bindgen passes `--config-path` to the formatter.
#[allow(dead_code)]
pub fn model_output_with(ops: &[Op], input: &[u8], has_config: bool) -> (Vec<u8>, Option<i32>) {
    let mut consumed = 0usize;
    let mut out = Vec::new();
    let mut in_open = true;
    let mut out_open = true;
    for op in ops {
        match op {
            Op::ReadAll => {
                if in_open {
                    consumed = input.len();
                }
            }
            Op::Read(n) | Op::Read1(n) => {
                if in_open {
                    consumed = (consumed + n).min(input.len());
                }
            }
            Op::Write(k, p) => {
                if out_open {
                    out.extend(payload(k, p, &input[..consumed]));
                }
            }
            Op::CloseIn => in_open = false,
            Op::CloseOut => out_open = false,
            Op::Exit(c) => return (out, Some(*c)),
            Op::Kill(_) => return (out, None),
            Op::FailIfConfig => {
                if has_config {
                    if out_open {
                        out.extend(payload("formatted", "half", &input[..consumed]));
                    }
                    return (out, Some(1));
                }
            }
        }
    }
    (out, Some(0))
}
