//! bvsim: the simulation driver. Links the bindgen library built from /repo's
//! working tree with `--cfg bindgen_verif`.
mod c11;
mod c15;
mod job;
mod util;

use serde_json::{json, Value};
use std::io::{BufRead, Write};

fn handle(req: &Value) -> Value {
    match util::jstr(req, "op").unwrap_or("") {
        "gen" => {
            let j = job::Job::from_json(&req["job"]);
            bindgen::verif::salt::set(util::ju64(req, "salt").unwrap_or(0));
            let opts = job::RunOpts {
                fix: req.get("fix").filter(|f| !f.is_null()).map(job::fix_config_from_json),
                want_text: util::jbool(req, "want_text"),
                want_inventory: util::jbool(req, "want_inventory"),
                arm_steps: util::jbool(req, "arm_steps"),
            };
            job::run_job(&j, &opts)
        }
        "c11" => c11::op_scenario(req),
        "c15" => c15::op_sim(req),
        "c15-replay" => c15::op_replay(req),
        "c15-real" => c15::op_real(req),
        "ping" => json!({"pong": true}),
        other => json!({"error": format!("unknown op {other}")}),
    }
}

/// Line protocol: one JSON request per line on stdin, one JSON response per
/// line on stdout.
fn worker() {
    let stdin = std::io::stdin();
    let stdout = std::io::stdout();
    for line in stdin.lock().lines() {
        let Ok(line) = line else { break };
        if line.trim().is_empty() {
            continue;
        }
        let resp = match serde_json::from_str::<Value>(&line) {
            Ok(req) => handle(&req),
            Err(e) => json!({"error": format!("bad request: {e}")}),
        };
        let mut o = stdout.lock();
        let _ = writeln!(o, "{resp}");
        let _ = o.flush();
    }
}

fn main() {
    let args: Vec<String> = std::env::args().collect();
    match args.get(1).map(|s| s.as_str()) {
        Some("worker") => worker(),
        Some("one") => {
            // one request from a file, one response on stdout (used for child
            // processes that run under the LD_PRELOAD shim)
            let text = std::fs::read_to_string(&args[2]).expect("request file");
            let req: Value = serde_json::from_str(&text).expect("request json");
            println!("{}", handle(&req));
        }
        Some("tokdiff") => {
            let a = std::fs::read_to_string(&args[2]).unwrap();
            let b = std::fs::read_to_string(&args[3]).unwrap();
            fn flat(ts: proc_macro2::TokenStream, out: &mut Vec<String>) {
                for t in ts {
                    match t {
                        proc_macro2::TokenTree::Group(g) => {
                            out.push(format!("{:?}(", g.delimiter()));
                            flat(g.stream(), out);
                            out.push(")".into());
                        }
                        other => out.push(other.to_string()),
                    }
                }
            }
            let (mut x, mut y) = (vec![], vec![]);
            flat(a.parse().unwrap(), &mut x);
            flat(b.parse().unwrap(), &mut y);
            println!("{} vs {} tokens", x.len(), y.len());
            for i in 0..x.len().min(y.len()) {
                if x[i] != y[i] {
                    println!("first difference at {i}: {:?} vs {:?}", &x[i.saturating_sub(5)..(i + 5).min(x.len())], &y[i.saturating_sub(5)..(i + 5).min(y.len())]);
                    break;
                }
            }
        }
        _ => {
            eprintln!("usage: bvsim worker");
            std::process::exit(2);
        }
    }
}
