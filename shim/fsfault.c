// LD_PRELOAD shim of the fsfault-sim (C12) and of the hash-seed seam (C11).
//
// * File-system fault plan: $BVSIM_FS_PLAN names a text file, one entry per
//   line:   <path-suffix> <op> <nth> <action>
//   op:     open | stat | read | mmap | access | readlink
//   nth:    which occurrence of (entry's path, op) to hit, 1-based; 0 = every
//   action: an errno name (fail with it), or `short` (read: return 1 byte now,
//           the rest on later calls), or `eintr1` (fail once with EINTR).
//   Only paths ending in <path-suffix> are touched. Every fault that actually
//   fires is appended to $BVSIM_FS_LOG as "<entry-index> <op> <path> <action>".
// * $BVSIM_GETRANDOM_SEED: getrandom() returns bytes of a SplitMix64 stream
//   (fixes the SipHash keys of every std HashMap in the process).
#define _GNU_SOURCE
#include <dlfcn.h>
#include <errno.h>
#include <fcntl.h>
#include <stdarg.h>
#include <stdio.h>
#include <stdlib.h>
#include <string.h>
#include <sys/mman.h>
#include <sys/stat.h>
#include <sys/types.h>
#include <unistd.h>
#include <pthread.h>
#include <stdint.h>

#define MAX_ENTRIES 64
#define MAX_FDS 4096

enum { OP_OPEN, OP_STAT, OP_READ, OP_MMAP, OP_ACCESS, OP_READLINK, OP_N };
static const char *OP_NAMES[] = {"open", "stat", "read", "mmap", "access", "readlink"};

struct entry {
    char suffix[256];
    int op;
    int nth;
    char action[32];
    int err;      // errno to inject, 0 for special actions
    int count;    // occurrences seen so far
    int fired;
};

static struct entry plan[MAX_ENTRIES];
static int nplan = 0;
static int loaded = 0;
static char logpath[512];
static pthread_mutex_t mu = PTHREAD_MUTEX_INITIALIZER;
static char *fdpath[MAX_FDS];

static int errno_of(const char *s) {
    struct { const char *n; int e; } t[] = {
        {"ENOENT", ENOENT}, {"EACCES", EACCES}, {"EISDIR", EISDIR}, {"ENOTDIR", ENOTDIR},
        {"ELOOP", ELOOP}, {"ENAMETOOLONG", ENAMETOOLONG}, {"EIO", EIO}, {"EMFILE", EMFILE},
        {"ENFILE", ENFILE}, {"ENOMEM", ENOMEM}, {"EINTR", EINTR}, {"EPERM", EPERM},
        {"EOVERFLOW", EOVERFLOW}, {"ENODEV", ENODEV}, {"EAGAIN", EAGAIN}, {"EBADF", EBADF},
        {"ESTALE", ESTALE}, {"EROFS", EROFS}, {"ETXTBSY", ETXTBSY}, {0, 0}};
    for (int i = 0; t[i].n; i++)
        if (!strcmp(t[i].n, s)) return t[i].e;
    return 0;
}

static void load_plan(void) {
    if (loaded) return;
    loaded = 1;
    const char *p = getenv("BVSIM_FS_PLAN");
    const char *l = getenv("BVSIM_FS_LOG");
    if (l) snprintf(logpath, sizeof logpath, "%s", l);
    if (!p) return;
    int (*real_open)(const char *, int, ...) = dlsym(RTLD_NEXT, "open");
    ssize_t (*real_read)(int, void *, size_t) = dlsym(RTLD_NEXT, "read");
    int (*real_close)(int) = dlsym(RTLD_NEXT, "close");
    int fd = real_open(p, O_RDONLY);
    if (fd < 0) return;
    static char buf[16384];
    ssize_t n = real_read(fd, buf, sizeof buf - 1);
    real_close(fd);
    if (n <= 0) return;
    buf[n] = 0;
    char *save = 0;
    for (char *line = strtok_r(buf, "\n", &save); line && nplan < MAX_ENTRIES; line = strtok_r(0, "\n", &save)) {
        struct entry *e = &plan[nplan];
        char op[32];
        if (sscanf(line, "%255s %31s %d %31s", e->suffix, op, &e->nth, e->action) != 4) continue;
        e->op = -1;
        for (int i = 0; i < OP_N; i++)
            if (!strcmp(op, OP_NAMES[i])) e->op = i;
        if (e->op < 0) continue;
        e->err = errno_of(e->action);
        if (!strcmp(e->action, "eintr1")) e->err = EINTR;
        e->count = 0;
        e->fired = 0;
        nplan++;
    }
}

static int ends_with(const char *s, const char *suffix) {
    size_t a = strlen(s), b = strlen(suffix);
    return a >= b && !strcmp(s + a - b, suffix);
}

static void log_fired(int idx, int op, const char *path, const char *action) {
    if (!logpath[0]) return;
    int (*real_open)(const char *, int, ...) = dlsym(RTLD_NEXT, "open");
    ssize_t (*real_write)(int, const void *, size_t) = dlsym(RTLD_NEXT, "write");
    int (*real_close)(int) = dlsym(RTLD_NEXT, "close");
    int fd = real_open(logpath, O_WRONLY | O_APPEND | O_CREAT, 0666);
    if (fd < 0) return;
    char line[1024];
    int n = snprintf(line, sizeof line, "%d %s %s %s\n", idx, OP_NAMES[op], path, action);
    if (n > 0) real_write(fd, line, (size_t)n);
    real_close(fd);
}

// Returns the plan entry that fires for (path, op) now, or NULL.
static struct entry *decide(const char *path, int op) {
    if (!path) return 0;
    pthread_mutex_lock(&mu);
    load_plan();
    struct entry *hit = 0;
    for (int i = 0; i < nplan; i++) {
        struct entry *e = &plan[i];
        if (e->op != op || !ends_with(path, e->suffix)) continue;
        e->count++;
        int fire = (e->nth == 0) || (e->count == e->nth);
        if (!strcmp(e->action, "eintr1") && e->fired) fire = 0;
        if (fire && !hit) {
            hit = e;
            e->fired++;
            log_fired(i, op, path, e->action);
        }
    }
    pthread_mutex_unlock(&mu);
    return hit;
}

static void remember_fd(int fd, const char *path) {
    if (fd < 0 || fd >= MAX_FDS || !path) return;
    pthread_mutex_lock(&mu);
    load_plan();
    int relevant = 0;
    for (int i = 0; i < nplan; i++)
        if (ends_with(path, plan[i].suffix)) relevant = 1;
    free(fdpath[fd]);
    fdpath[fd] = relevant ? strdup(path) : 0;
    pthread_mutex_unlock(&mu);
}

static const char *path_of_fd(int fd) {
    if (fd < 0 || fd >= MAX_FDS) return 0;
    return fdpath[fd];
}

// ------------------------------------------------------------------ syscall-level yield points
//
// The driver can register a hook that is called before every file-system
// call that creates, truncates, renames or removes a file, provided the call
// comes from the driver binary itself (bindgen + std) and not from inside
// libclang/libLLVM (whose internal locks a parked thread must never hold).
static void (*sys_hook)(const char *op, const char *path) = 0;

void bvsim_set_sys_hook(void (*hook)(const char *, const char *)) { sys_hook = hook; }

static int caller_is_driver(void *ret_addr) {
    Dl_info info;
    if (!dladdr(ret_addr, &info) || !info.dli_fname) return 0;
    return strstr(info.dli_fname, "libclang") == 0 && strstr(info.dli_fname, "libLLVM") == 0 &&
           strstr(info.dli_fname, "fsfault") == 0;
}

#define SYS_HOOK(op, path) \
    do { \
        if (sys_hook && (path) && caller_is_driver(__builtin_return_address(0))) sys_hook(op, path); \
    } while (0)

#define REAL(ret, name, ...) \
    static ret (*real_##name)(__VA_ARGS__) = 0; \
    if (!real_##name) real_##name = dlsym(RTLD_NEXT, #name)

// ------------------------------------------------------------------ open family

static int do_open(const char *which, int dirfd, const char *path, int flags, mode_t mode) {
    struct entry *e = decide(path, OP_OPEN);
    if (e && e->err) {
        errno = e->err;
        return -1;
    }
    int fd;
    if (!strcmp(which, "openat")) {
        REAL(int, openat, int, const char *, int, ...);
        fd = real_openat(dirfd, path, flags, mode);
    } else {
        REAL(int, open, const char *, int, ...);
        fd = real_open(path, flags, mode);
    }
    if (fd >= 0) remember_fd(fd, path);
    return fd;
}

int open(const char *path, int flags, ...) {
    if (flags & (O_CREAT | O_TRUNC | O_WRONLY | O_RDWR)) SYS_HOOK("open-write", path);
    mode_t mode = 0;
    if (flags & (O_CREAT | O_TMPFILE)) {
        va_list ap;
        va_start(ap, flags);
        mode = va_arg(ap, mode_t);
        va_end(ap);
    }
    return do_open("open", AT_FDCWD, path, flags, mode);
}
int open64(const char *path, int flags, ...) {
    if (flags & (O_CREAT | O_TRUNC | O_WRONLY | O_RDWR)) SYS_HOOK("open-write", path);
    mode_t mode = 0;
    if (flags & (O_CREAT | O_TMPFILE)) {
        va_list ap;
        va_start(ap, flags);
        mode = va_arg(ap, mode_t);
        va_end(ap);
    }
    return do_open("open", AT_FDCWD, path, flags | O_LARGEFILE, mode);
}
int openat(int dirfd, const char *path, int flags, ...) {
    if (flags & (O_CREAT | O_TRUNC | O_WRONLY | O_RDWR)) SYS_HOOK("open-write", path);
    mode_t mode = 0;
    if (flags & (O_CREAT | O_TMPFILE)) {
        va_list ap;
        va_start(ap, flags);
        mode = va_arg(ap, mode_t);
        va_end(ap);
    }
    return do_open("openat", dirfd, path, flags, mode);
}
int openat64(int dirfd, const char *path, int flags, ...) {
    if (flags & (O_CREAT | O_TRUNC | O_WRONLY | O_RDWR)) SYS_HOOK("open-write", path);
    mode_t mode = 0;
    if (flags & (O_CREAT | O_TMPFILE)) {
        va_list ap;
        va_start(ap, flags);
        mode = va_arg(ap, mode_t);
        va_end(ap);
    }
    return do_open("openat", dirfd, path, flags | O_LARGEFILE, mode);
}

int close(int fd) {
    REAL(int, close, int);
    if (fd >= 0 && fd < MAX_FDS && fdpath[fd]) {
        pthread_mutex_lock(&mu);
        free(fdpath[fd]);
        fdpath[fd] = 0;
        pthread_mutex_unlock(&mu);
    }
    return real_close(fd);
}

int rename(const char *from, const char *to) {
    REAL(int, rename, const char *, const char *);
    SYS_HOOK("rename", from);
    return real_rename(from, to);
}
int renameat(int fd1, const char *from, int fd2, const char *to) {
    REAL(int, renameat, int, const char *, int, const char *);
    SYS_HOOK("rename", from);
    return real_renameat(fd1, from, fd2, to);
}
int unlink(const char *path) {
    REAL(int, unlink, const char *);
    SYS_HOOK("unlink", path);
    return real_unlink(path);
}
int unlinkat(int fd, const char *path, int flags) {
    REAL(int, unlinkat, int, const char *, int);
    SYS_HOOK("unlink", path);
    return real_unlinkat(fd, path, flags);
}

// process creation and reaping by the driver binary (e.g. the `clang`
// executable probe of include-path detection): yield points too
#include <spawn.h>
#include <sys/wait.h>
int posix_spawn(pid_t *pid, const char *path, const posix_spawn_file_actions_t *fa,
                const posix_spawnattr_t *attr, char *const argv[], char *const envp[]) {
    REAL(int, posix_spawn, pid_t *, const char *, const posix_spawn_file_actions_t *, const posix_spawnattr_t *,
         char *const[], char *const[]);
    SYS_HOOK("spawn", path);
    return real_posix_spawn(pid, path, fa, attr, argv, envp);
}
int posix_spawnp(pid_t *pid, const char *file, const posix_spawn_file_actions_t *fa,
                 const posix_spawnattr_t *attr, char *const argv[], char *const envp[]) {
    REAL(int, posix_spawnp, pid_t *, const char *, const posix_spawn_file_actions_t *, const posix_spawnattr_t *,
         char *const[], char *const[]);
    SYS_HOOK("spawn", file);
    return real_posix_spawnp(pid, file, fa, attr, argv, envp);
}
pid_t waitpid(pid_t pid, int *status, int options) {
    REAL(pid_t, waitpid, pid_t, int *, int);
    SYS_HOOK("wait", "-");
    return real_waitpid(pid, status, options);
}

// ------------------------------------------------------------------ stat family

#define STAT_FAULT(path) \
    do { \
        struct entry *e_ = decide(path, OP_STAT); \
        if (e_ && e_->err) { \
            errno = e_->err; \
            return -1; \
        } \
    } while (0)

int stat(const char *path, struct stat *st) {
    REAL(int, stat, const char *, struct stat *);
    STAT_FAULT(path);
    return real_stat(path, st);
}
int stat64(const char *path, struct stat64 *st) {
    REAL(int, stat64, const char *, struct stat64 *);
    STAT_FAULT(path);
    return real_stat64(path, st);
}
int lstat(const char *path, struct stat *st) {
    REAL(int, lstat, const char *, struct stat *);
    STAT_FAULT(path);
    return real_lstat(path, st);
}
int lstat64(const char *path, struct stat64 *st) {
    REAL(int, lstat64, const char *, struct stat64 *);
    STAT_FAULT(path);
    return real_lstat64(path, st);
}
int fstatat(int dirfd, const char *path, struct stat *st, int flags) {
    REAL(int, fstatat, int, const char *, struct stat *, int);
    STAT_FAULT(path);
    return real_fstatat(dirfd, path, st, flags);
}
int fstatat64(int dirfd, const char *path, struct stat64 *st, int flags) {
    REAL(int, fstatat64, int, const char *, struct stat64 *, int);
    STAT_FAULT(path);
    return real_fstatat64(dirfd, path, st, flags);
}
int statx(int dirfd, const char *path, int flags, unsigned int mask, struct statx *stx) {
    REAL(int, statx, int, const char *, int, unsigned int, struct statx *);
    // glibc declares `path` nonnull, but Rust's std probes for statx with a
    // NULL path: keep the compiler from dropping the check.
    const char *volatile vp = path;
    const char *p = vp;
    if (p && p[0]) STAT_FAULT(p);
    else if (p && path_of_fd(dirfd)) STAT_FAULT(path_of_fd(dirfd));
    return real_statx(dirfd, path, flags, mask, stx);
}
int fstat(int fd, struct stat *st) {
    REAL(int, fstat, int, struct stat *);
    const char *p = path_of_fd(fd);
    if (p) STAT_FAULT(p);
    return real_fstat(fd, st);
}
int fstat64(int fd, struct stat64 *st) {
    REAL(int, fstat64, int, struct stat64 *);
    const char *p = path_of_fd(fd);
    if (p) STAT_FAULT(p);
    return real_fstat64(fd, st);
}

int access(const char *path, int mode) {
    REAL(int, access, const char *, int);
    struct entry *e = decide(path, OP_ACCESS);
    if (e && e->err) {
        errno = e->err;
        return -1;
    }
    return real_access(path, mode);
}
int faccessat(int dirfd, const char *path, int mode, int flags) {
    REAL(int, faccessat, int, const char *, int, int);
    struct entry *e = decide(path, OP_ACCESS);
    if (e && e->err) {
        errno = e->err;
        return -1;
    }
    return real_faccessat(dirfd, path, mode, flags);
}
ssize_t readlink(const char *path, char *buf, size_t n) {
    REAL(ssize_t, readlink, const char *, char *, size_t);
    struct entry *e = decide(path, OP_READLINK);
    if (e && e->err) {
        errno = e->err;
        return -1;
    }
    return real_readlink(path, buf, n);
}

// ------------------------------------------------------------------ read / mmap

ssize_t read(int fd, void *buf, size_t n) {
    REAL(ssize_t, read, int, void *, size_t);
    const char *p = path_of_fd(fd);
    if (p && n > 0) {
        struct entry *e = decide(p, OP_READ);
        if (e) {
            if (e->err) {
                errno = e->err;
                return -1;
            }
            if (!strcmp(e->action, "short")) return real_read(fd, buf, 1);
        }
    }
    return real_read(fd, buf, n);
}
ssize_t pread(int fd, void *buf, size_t n, off_t off) {
    REAL(ssize_t, pread, int, void *, size_t, off_t);
    const char *p = path_of_fd(fd);
    if (p && n > 0) {
        struct entry *e = decide(p, OP_READ);
        if (e) {
            if (e->err) {
                errno = e->err;
                return -1;
            }
            if (!strcmp(e->action, "short")) return real_pread(fd, buf, 1, off);
        }
    }
    return real_pread(fd, buf, n, off);
}
ssize_t pread64(int fd, void *buf, size_t n, off64_t off) {
    REAL(ssize_t, pread64, int, void *, size_t, off64_t);
    const char *p = path_of_fd(fd);
    if (p && n > 0) {
        struct entry *e = decide(p, OP_READ);
        if (e) {
            if (e->err) {
                errno = e->err;
                return -1;
            }
            if (!strcmp(e->action, "short")) return real_pread64(fd, buf, 1, off);
        }
    }
    return real_pread64(fd, buf, n, off);
}
void *mmap(void *addr, size_t len, int prot, int flags, int fd, off_t off) {
    REAL(void *, mmap, void *, size_t, int, int, int, off_t);
    const char *p = (flags & MAP_ANONYMOUS) ? 0 : path_of_fd(fd);
    if (p) {
        struct entry *e = decide(p, OP_MMAP);
        if (e && e->err) {
            errno = e->err;
            return MAP_FAILED;
        }
    }
    return real_mmap(addr, len, prot, flags, fd, off);
}
void *mmap64(void *addr, size_t len, int prot, int flags, int fd, off64_t off) {
    REAL(void *, mmap64, void *, size_t, int, int, int, off64_t);
    const char *p = (flags & MAP_ANONYMOUS) ? 0 : path_of_fd(fd);
    if (p) {
        struct entry *e = decide(p, OP_MMAP);
        if (e && e->err) {
            errno = e->err;
            return MAP_FAILED;
        }
    }
    return real_mmap64(addr, len, prot, flags, fd, off);
}

// ------------------------------------------------------------------ getrandom

static uint64_t gr_state = 0;
static int gr_on = -1;

// Called by the driver at the start of a scenario so that the hash keys of a
// scenario are a function of the scenario alone, not of what the worker
// process ran before.
void bvsim_getrandom_reseed(uint64_t seed) {
    pthread_mutex_lock(&mu);
    gr_on = 1;
    gr_state = seed;
    pthread_mutex_unlock(&mu);
}

ssize_t getrandom(void *buf, size_t len, unsigned int flags) {
    REAL(ssize_t, getrandom, void *, size_t, unsigned int);
    if (gr_on < 0) {
        const char *s = getenv("BVSIM_GETRANDOM_SEED");
        gr_on = s ? 1 : 0;
        if (s) gr_state = strtoull(s, 0, 0);
    }
    if (!gr_on) return real_getrandom(buf, len, flags);
    unsigned char *o = buf;
    pthread_mutex_lock(&mu);
    for (size_t i = 0; i < len;) {
        gr_state += 0x9E3779B97F4A7C15ull;
        uint64_t z = gr_state;
        z = (z ^ (z >> 30)) * 0xBF58476D1CE4E5B9ull;
        z = (z ^ (z >> 27)) * 0x94D049BB133111EBull;
        z ^= z >> 31;
        for (int k = 0; k < 8 && i < len; k++, i++) o[i] = (unsigned char)(z >> (8 * k));
    }
    pthread_mutex_unlock(&mu);
    return (ssize_t)len;
}
